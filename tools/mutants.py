#!/usr/bin/env python3
"""Self-made single-site regressions used to validate the monitors (DESIGN.md section 4).
usage: mutants.py list | apply <worktree> <name> | run <name> <PROP>[,<PROP>...] [tier]
`run` applies the mutant to a scratch worktree of /repo (created on demand under /tmp/verif-mut),
runs the given checks with VERIF_REPO pointing there, and restores the worktree."""
import os
import subprocess
import sys

WT = os.environ.get("VERIF_MUT_WT", "/tmp/verif-mut")

M = {
    # name: (file, old, new, expected-to-catch)
    "kill_no_raise": ("src/world/entity.rs", "            if self.raised.remove(entity.id()) {\n                self.generations[id].raise();\n            }\n", "            self.raised.remove(entity.id());\n", "C01,C02"),
    "pop_no_maintain": ("src/world/entity.rs", "    fn pop(&mut self) -> Option<Index> {\n        self.maintain();\n", "    fn pop(&mut self) -> Option<Index> {\n", "C01"),
    "kill_keeps_killed_bit": ("src/world/entity.rs", "            self.killed.remove(entity.id());\n", "", "C02"),
    "purge_one_too_many": ("src/world/world_ext.rs", "self.delete_components(&delete[..failed_index]);", "self.delete_components(&delete[..failed_index + 1]);", "C05"),
    "maintain_skips_single_purge": ("src/world/world_ext.rs", "if !deleted.is_empty() {", "if deleted.len() > 1 {", "C05"),
    "lazy_before_merge": ("src/world/world_ext.rs", "        let deleted = self.entities_mut().alloc.merge();\n        if !deleted.is_empty() {\n            self.delete_components(&deleted);\n        }\n\n        let lazy = self.write_resource::<LazyUpdate>().clone();\n        lazy.maintain(self);\n", "        let lazy = self.write_resource::<LazyUpdate>().clone();\n        lazy.maintain(self);\n        let deleted = self.entities_mut().alloc.merge();\n        if !deleted.is_empty() {\n            self.delete_components(&deleted);\n        }\n", "C09"),
    "get_mut_no_alive_check": ("src/storage/mod.rs", "    pub fn get_mut(&mut self, e: Entity) -> Option<AccessMutReturn<'_, T>> {\n        if self.data.mask.contains(e.id()) && self.entities.is_alive(e) {", "    pub fn get_mut(&mut self, e: Entity) -> Option<AccessMutReturn<'_, T>> {\n        if self.data.mask.contains(e.id()) {", "C03"),
    "entry_checks_current_occupant": ("src/storage/entry.rs", "        if self.entities.is_alive(e) {\n            Ok(self.entry_inner(e.id()))", "        if self.entities.is_alive(self.entities.entity(e.id())) {\n            Ok(self.entry_inner(e.id()))", "C03"),
    "merge_no_recycle": ("src/world/entity.rs", "        self.cache.extend(deleted.iter().map(|e| e.0));\n\n        deleted", "        deleted", "C17"),
    "is_alive_ignores_raised": ("src/world/entity.rs", "    pub fn is_alive(&self, e: Entity) -> bool {\n        e.gen()\n            == match self.generations.get(e.id() as usize) {\n                Some(g) if !g.is_alive() && self.raised.contains(e.id()) => g.raised(),", "    pub fn is_alive(&self, e: Entity) -> bool {\n        e.gen()\n            == match self.generations.get(e.id() as usize) {\n                Some(g) if !g.is_alive() && self.raised.contains(e.id()) && false => g.raised(),", "C02"),
    "null_clean_noop": ("src/storage/storages.rs", "        for id in has.iter() {\n            // SAFETY: Caller required to provide mask that keeps track of the\n            // existing elements, so every `id` is valid to use with `remove`.\n            unsafe { self.remove(id) };\n        }", "        let _ = has;", "C08"),
    "register_forgets_metatable": ("src/world/world_ext.rs", "        self.entry()\n            .or_insert_with(move || MaskedStorage::<T>::new(storage()));\n        self.fetch_mut::<MetaTable<dyn AnyStorage>>()\n            .register::<MaskedStorage<T>>();", "        self.entry()\n            .or_insert_with(move || MaskedStorage::<T>::new(storage()));", "C05"),
    "lend_get_no_alive": ("src/join/lend_join.rs", "if self.keys.contains(entity.id()) && entities.is_alive(entity) {", "if self.keys.contains(entity.id()) {", "C03"),
    "get_other_mut_no_alive": ("src/storage/restrict.rs", "    pub fn get_other_mut(&mut self, entity: Entity) -> Option<AccessMutReturn<'_, C>> {\n        if self.bitset.contains(entity.id()) && self.entities.is_alive(entity) {", "    pub fn get_other_mut(&mut self, entity: Entity) -> Option<AccessMutReturn<'_, C>> {\n        if self.bitset.contains(entity.id()) {", "C03,C13"),
    "lazy_lifo": ("src/world/lazy.rs", "        while let Some(l) = self.queue.0.pop() {\n            l.update(world);\n        }\n    }\n}\n\nimpl Drop", "        let mut v = Vec::new();\n        while let Some(l) = self.queue.0.pop() {\n            v.push(l);\n        }\n        while let Some(l) = v.pop() {\n            l.update(world);\n        }\n    }\n}\n\nimpl Drop", "C09"),
    "delete_all_skips_raised": ("src/world/world_ext.rs", "        let entities: Vec<_> = self.entities().join().collect();\n\n        self.delete_entities(&entities)", "        let entities: Vec<_> = self.entities().join().filter(|e| self.is_alive(*e)).collect();\n\n        self.delete_entities(&entities)", "C02"),
    "allocate_atomic_wrong_gen": ("src/world/entity.rs", "        self.raised.add_atomic(id);\n        #[cfg(feature = \"verif-hooks\")]\n        crate::verif::yield_point(crate::verif::point::ALLOC_AFTER_RAISE);\n        let gen = self\n            .generation(id)\n            .map(|gen| if gen.is_alive() { gen } else { gen.raised() })", "        self.raised.add_atomic(id);\n        #[cfg(feature = \"verif-hooks\")]\n        crate::verif::yield_point(crate::verif::point::ALLOC_AFTER_RAISE);\n        let gen = self\n            .generation(id)\n            .map(|gen| if gen.is_alive() { gen } else { Generation(unsafe { NonZeroI32::new_unchecked(-gen.id()) }) })", "C01,C02"),
}

M.update({
    "dense_remove_no_redirect": ("src/storage/storages.rs", "        unsafe { self.data_id.get_unchecked_mut(last as usize) }.write(did);\n", "", "C04"),
    "flagged_remove_no_event": ("src/storage/flagged.rs", "    unsafe fn remove(&mut self, id: Index) -> C {\n        if self.emit_event() {\n            self.channel\n                .get_mut()\n                .single_write(ComponentEvent::Removed(id));\n        }\n", "    unsafe fn remove(&mut self, id: Index) -> C {\n", "C12"),
    "deref_flagged_eager_modified": ("src/storage/deref_flagged.rs", "        let emit = self.emit_event();\n        FlaggedAccessMut {", "        let emit = self.emit_event();\n        if emit {\n            self.channel.single_write(ComponentEvent::Modified(id));\n        }\n        FlaggedAccessMut {", "C12"),
    "flagged_insert_ignores_emission_flag": ("src/storage/flagged.rs", "        // inserted, so no `Inserted` event may be emitted for it.\n        if self.emit_event() {", "        // inserted, so no `Inserted` event may be emitted for it.\n        if true {", "C12"),
    "flagged_drop_bypasses_event": ("src/storage/flagged.rs", "    unsafe fn remove(&mut self, id: Index) -> C {\n        if self.emit_event() {\n            self.channel\n                .get_mut()\n                .single_write(ComponentEvent::Removed(id));\n        }", "    unsafe fn drop(&mut self, id: Index) {\n        unsafe { self.storage.drop(id) };\n    }\n\n    unsafe fn remove(&mut self, id: Index) -> C {\n        if self.emit_event() {\n            self.channel\n                .get_mut()\n                .single_write(ComponentEvent::Removed(id));\n        }", "C12"),
    "restrict_read_get_other_no_alive": ("src/storage/restrict.rs", "    pub fn get_other(&self, entity: Entity) -> Option<&C> {\n        if self.bitset.contains(entity.id()) && self.entities.is_alive(entity) {\n            // SAFETY:We just checked the mask.\n            Some(unsafe { self.storage.get(entity.id()) })\n        } else {\n            None\n        }\n    }\n}\n\nimpl<'rf, C> PairedStorageWriteShared", "    pub fn get_other(&self, entity: Entity) -> Option<&C> {\n        if self.bitset.contains(entity.id()) {\n            // SAFETY:We just checked the mask.\n            Some(unsafe { self.storage.get(entity.id()) })\n        } else {\n            None\n        }\n    }\n}\n\nimpl<'rf, C> PairedStorageWriteShared", "C03,C13"),
    "vec_clean_inverted_mask": ("src/storage/storages.rs", "            if has.contains(i as u32) {\n                // drop in place", "            if !has.contains(i as u32) {\n                // drop in place", "C08"),
    "storage_remove_no_alive": ("src/storage/mod.rs", "    pub fn remove(&mut self, e: Entity) -> Option<T> {\n        if self.entities.is_alive(e) {", "    pub fn remove(&mut self, e: Entity) -> Option<T> {\n        if true {", "C03"),
    "insert_overwrite_keeps_old": ("src/storage/mod.rs", "                std::mem::swap(&mut v, unsafe { self.data.inner.get_mut(id) }.access_mut());\n", "                let _ = unsafe { self.data.inner.get_mut(id) };\n", "C04"),
    "get_other_mut_uses_own_index": ("src/storage/restrict.rs", "            Some(unsafe { self.storage.get_mut(entity.id()) })", "            Some(unsafe { self.storage.get_mut(self.index) })", "C13"),
    "entry_remove_skips_mask": ("src/storage/entry.rs", "    pub fn remove(self) -> T {\n        self.storage.data.remove(self.id).unwrap()", "    pub fn remove(self) -> T {\n        // SAFETY: occupied\n        unsafe { self.storage.data.inner.remove(self.id) }", "C04"),
    "default_vec_remove_no_default": ("src/storage/storages.rs", "        core::mem::take(unsafe { self.0.get_unchecked_mut(id as usize) }.get_mut())", "        unsafe { ptr::read(self.0.get_unchecked_mut(id as usize).get_mut()) }", "C08,C04"),
    "contains_mask_only": ("src/storage/mod.rs", "    pub fn contains(&self, e: Entity) -> bool {\n        self.data.mask.contains(e.id()) && self.entities.is_alive(e)", "    pub fn contains(&self, e: Entity) -> bool {\n        self.data.mask.contains(e.id())", "C03"),
})

M.update({
    "entities_join_ignores_raised_gen": ("src/world/entity.rs", "    unsafe fn get(v: &mut &'a EntitiesRes, id: Index) -> Entity {\n        let gen = v\n            .alloc\n            .generation(id)\n            .map(|gen| if gen.is_alive() { gen } else { gen.raised() })", "    unsafe fn get(v: &mut &'a EntitiesRes, id: Index) -> Entity {\n        let gen = v\n            .alloc\n            .generation(id)\n            .map(|gen| if gen.is_alive() { gen } else { Generation::one() })", "C06,C02"),
    "lend_for_each_skips_first": ("src/join/lend_join.rs", "    pub fn for_each(mut self, mut f: impl FnMut(LendJoinType<'_, J>)) {\n        self.keys.for_each(|idx| {", "    pub fn for_each(mut self, mut f: impl FnMut(LendJoinType<'_, J>)) {\n        self.keys.next();\n        self.keys.for_each(|idx| {", "C06"),
    "maybe_lend_wrong_bit": ("src/join/maybe.rs", "    unsafe fn get<'next>((mask, value): &'next mut Self::Value, id: Index) -> Self::Type<'next> {\n        if mask.contains(id) {", "    unsafe fn get<'next>((mask, value): &'next mut Self::Value, id: Index) -> Self::Type<'next> {\n        if mask.contains(id) && id % 64 != 63 {", "C06"),
})

M.update({
    "par_split_drops_second_half": ("src/join/par_join.rs", "        let second = other.map(|o| JoinProducer::new(o, values));", "        let second = other.and_then(|o| if false { Some(JoinProducer::new(o, values)) } else { None });", "C07"),
    "par_entities_ignores_raised_gen": ("src/world/entity.rs", "    unsafe fn get(v: &&'a EntitiesRes, id: Index) -> Entity {\n        let gen = v\n            .alloc\n            .generation(id)\n            .map(|gen| if gen.is_alive() { gen } else { gen.raised() })", "    unsafe fn get(v: &&'a EntitiesRes, id: Index) -> Entity {\n        let gen = v\n            .alloc\n            .generation(id)\n            .map(|gen| if gen.is_alive() { gen } else { Generation::one() })", "C07"),
    "par_maybe_wrong_bit": ("src/join/maybe.rs", "    unsafe fn get((mask, value): &Self::Value, id: Index) -> Self::Type {\n        if mask.contains(id) {", "    unsafe fn get((mask, value): &Self::Value, id: Index) -> Self::Type {\n        if mask.contains(id) && id % 4096 != 4095 {", "C07"),
})

M.update({
    "clear_keeps_mask_during_clean": ("src/storage/mod.rs", "        let mut mask_temp = core::mem::take(&mut self.mask);\n        // SAFETY: `self.mask` is the correct mask as specified. We swap in a\n        // temporary empty mask to ensure if this unwinds that the mask will be\n        // cleared.\n        unsafe { self.inner.clean(&mask_temp) };\n        mask_temp.clear();\n        self.mask = mask_temp;", "        unsafe { self.inner.clean(&self.mask) };\n        self.mask.clear();", "C19"),
    "drop_clears_bit_after_destroy": ("src/storage/mod.rs", "    pub fn drop(&mut self, id: Index) {\n        if self.mask.remove(id) {\n            // SAFETY: We checked the mask and removed the id before calling\n            // drop (`remove` returned `true`).\n            unsafe {\n                self.inner.drop(id);\n            }\n        }\n    }", "    pub fn drop(&mut self, id: Index) {\n        if self.mask.contains(id) {\n            unsafe {\n                self.inner.drop(id);\n            }\n            self.mask.remove(id);\n        }\n    }", "C19"),
    "dense_clean_data_first": ("src/storage/storages.rs", "        self.data_id.clear();\n        self.entity_id.clear();\n        self.data.clear();", "        self.data.clear();\n        self.data_id.clear();\n        self.entity_id.clear();", "C19"),
    "changeset_clear_keeps_mask": ("src/changeset.rs", "        let mut mask_temp = core::mem::take(&mut self.mask);\n        // SAFETY: `self.mask` is the correct mask as specified. We swap in a\n        // temporary empty mask to ensure if this unwinds that the mask will be\n        // cleared.\n        unsafe { self.inner.clean(&mask_temp) };\n        mask_temp.clear();\n        self.mask = mask_temp;", "        unsafe { self.inner.clean(&self.mask) };\n        self.mask.clear();", "C19"),
    "changeset_add_overwrites": ("src/changeset.rs", "            unsafe { *self.inner.get_mut(entity.id()) += value };", "            unsafe { *self.inner.get_mut(entity.id()) = value };", "C16"),
})

M.update({
    "atomic_decrement_load_store": ("src/world/entity.rs", "    let mut prev = i.load(Ordering::Relaxed);\n    while prev != 0 {\n        #[cfg(feature = \"verif-hooks\")]\n        crate::verif::yield_point(crate::verif::point::DEC_BEFORE_CAS);\n        match i.compare_exchange_weak(prev, prev - 1, Ordering::Relaxed, Ordering::Relaxed) {\n            Ok(x) => return Some(x),\n            Err(next_prev) => prev = next_prev,\n        }\n    }\n    None", "    let prev = i.load(Ordering::Relaxed);\n    if prev == 0 {\n        return None;\n    }\n    i.store(prev - 1, Ordering::Relaxed);\n    Some(prev)", "C10"),
    "atomic_increment_load_store": ("src/world/entity.rs", "    let mut prev = i.load(Ordering::Relaxed);\n    while prev != usize::MAX {\n        #[cfg(feature = \"verif-hooks\")]\n        crate::verif::yield_point(crate::verif::point::INC_BEFORE_CAS);\n        match i.compare_exchange_weak(prev, prev + 1, Ordering::Relaxed, Ordering::Relaxed) {\n            Ok(x) => return Some(x),\n            Err(next_prev) => prev = next_prev,\n        }\n    }\n    None", "    let prev = i.load(Ordering::Relaxed);\n    if prev == usize::MAX {\n        return None;\n    }\n    i.store(prev + 1, Ordering::Relaxed);\n    Some(prev)", "C10"),
    "atomic_decrement_cas_ignores_failure": ("src/world/entity.rs", "        match i.compare_exchange_weak(prev, prev - 1, Ordering::Relaxed, Ordering::Relaxed) {\n            Ok(x) => return Some(x),\n            Err(next_prev) => prev = next_prev,\n        }\n    }\n    None\n}\n\n#[cfg(test)]", "        match i.compare_exchange_weak(prev, prev - 1, Ordering::Relaxed, Ordering::Relaxed) {\n            Ok(x) => return Some(x),\n            Err(_) => return Some(prev),\n        }\n    }\n    None\n}\n\n#[cfg(test)]", "C10"),
})

M.update({
    "merge_recycles_in_hash_order": ("src/world/entity.rs", "        self.cache.extend(deleted.iter().map(|e| e.0));\n\n        deleted", "        let hs: std::collections::HashSet<Index> = deleted.iter().map(|e| e.0).collect();\n        self.cache.extend(hs.into_iter());\n\n        deleted", "C20"),
    "kill_recycles_in_address_order": ("src/world/entity.rs", "        self.cache.extend(delete.iter().map(|e| e.0));\n\n        Ok(())", "        let salt = (&self.generations as *const _ as usize >> 12) as u32 & 1;\n        if salt == 0 {\n            self.cache.extend(delete.iter().map(|e| e.0));\n        } else {\n            self.cache.extend(delete.iter().rev().map(|e| e.0));\n        }\n\n        Ok(())", "C20"),
})

M.update({
})

M.update({
    "remove_on_drop_guard_removed": ("src/storage/mod.rs", "            let guard = RemoveOnDrop(&mut self.data, id);\n            guard.0.mask.add(id);\n            core::mem::forget(guard);", "            let guard = RemoveOnDrop(&mut self.data, id);\n            let g = core::mem::ManuallyDrop::new(guard);\n            let _ = &g;\n            self.data.mask.add(id);", "C08"),
})

M.update({
    "revert_fix_c17_failing_batch_recycles_prefix": ("src/world/entity.rs", "                self.cache.extend(delete[..index].iter().map(|e| e.0));\n                return Err((self.del_err(entity), index));", "                return Err((self.del_err(entity), index));", "C17"),
    "revert_fix_c12_inserted_after_insert": ("src/storage/flagged.rs", "        // SAFETY: Requirements passed to caller.\n        unsafe { self.storage.insert(id, comp) };\n        // NOTE: The event is written only once the insertion succeeded.", "        if self.emit_event() {\n            self.channel\n                .get_mut()\n                .single_write(ComponentEvent::Inserted(id));\n        }\n        // SAFETY: Requirements passed to caller.\n        unsafe { self.storage.insert(id, comp) };\n        return;\n        // NOTE: The event is written only once the insertion succeeded.", "C12"),
})


def sh(cmd, **kw):
    return subprocess.run(cmd, shell=True, **kw)


def ensure_wt():
    if not os.path.isdir(WT):
        sh("git -C /repo worktree add --detach %s HEAD >/dev/null 2>&1" % WT, check=True)
    else:
        sh("git -C %s checkout -q --detach $(git -C /repo rev-parse HEAD) 2>/dev/null; git -C %s checkout -- ." % (WT, WT))


def apply(wt, name):
    f, old, new, _ = M[name]
    p = os.path.join(wt, f)
    s = open(p).read()
    if old not in s:
        raise RuntimeError("mutant %s: anchor not found in %s" % (name, f))
    open(p, "w").write(s.replace(old, new, 1))


def main():
    a = sys.argv[1:]
    if a[0] == "list":
        for k, v in M.items():
            print(k, "->", v[3])
    elif a[0] == "apply":
        apply(a[1], a[2])
    elif a[0] == "run":
        names = list(M) if a[1] == "all" else a[1].split(",")
        tier = a[3] if len(a) > 3 else "quick"
        for name in names:
            ensure_wt()
            try:
                apply(WT, name)
            except RuntimeError as e:
                print("%-32s - rc=- ANCHOR-MISSING %s" % (name, e))
                continue
            props = (a[2] if len(a) > 2 and a[2] != "-" else M[name][3]).split(",")
            for p in props:
                env = dict(os.environ, VERIF_REPO=WT)
                r = subprocess.run(["/verif/check", p, "--tier", tier], env=env, stdout=subprocess.PIPE, stderr=subprocess.PIPE, text=True)
                viol = [l for l in r.stdout.splitlines() if l.startswith("VIOLATION")]
                first = [l for l in r.stderr.splitlines() if l.strip().startswith("->")]
                print("%-32s %s rc=%s %s %s" % (name, p, r.returncode, "CAUGHT" if viol else "MISSED", (first[0][:200] if first else "")))
                sys.stdout.flush()
            sh("git -C %s checkout -- ." % WT)
    elif a[0] == "clean":
        sh("git -C /repo worktree remove --force %s; rm -rf %s.verif" % (WT, WT))


if __name__ == "__main__":
    main()
