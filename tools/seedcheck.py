#!/usr/bin/env python3
"""Confirm a seeded change produced by an independent sub-agent and run the checks against it.

usage: seedcheck.py <dir with patch.diff demo.rs meta.json> <name> [PROP ...] [--tier quick|thorough] [--no-verify]

Steps (all in the scratch worktree /tmp/verif-mut, never in /repo):
  1. patch applies; both feature sets build; the existing suite (lib + tests/) passes with it
  2. the demonstration fails with the change and passes without it
  3. each listed check (default: the property named in meta.json) is run with VERIF_REPO=scratch
The change is kept under /verif/seeded/<name>/ only if 1 and 2 hold; meta.json records what was run and
which checks caught it."""
import json
import os
import shutil
import subprocess
import sys

WT = "/tmp/verif-mut"
ENV = dict(os.environ, CARGO_NET_OFFLINE="true")


def sh(cmd, cwd=None, env=None, timeout=3000):
    p = subprocess.run(cmd, shell=True, cwd=cwd, env=env or ENV, stdout=subprocess.PIPE, stderr=subprocess.STDOUT, text=True, timeout=timeout)
    return p.returncode, p.stdout


def ensure_wt():
    if not os.path.isdir(WT):
        rc, out = sh("git -C /repo worktree add --detach %s HEAD" % WT)
        assert rc == 0, out
    sh("git -C %s checkout -q --detach $(git -C /repo rev-parse HEAD); git -C %s checkout -- .; git -C %s clean -fdq tests" % (WT, WT, WT))


def main():
    a = sys.argv[1:]
    src, name = a[0], a[1]
    tier = "quick"
    verify = True
    props = []
    i = 2
    while i < len(a):
        if a[i] == "--tier":
            tier = a[i + 1]
            i += 2
        elif a[i] == "--no-verify":
            verify = False
            i += 1
        else:
            props.append(a[i])
            i += 1
    meta = json.load(open(os.path.join(src, "meta.json")))
    if not props:
        props = [meta["property"]]
    ensure_wt()
    ran = {}
    rc, out = sh("git apply --whitespace=nowarn %s" % os.path.join(os.path.abspath(src), "patch.diff"), cwd=WT)
    if rc != 0:
        print("PATCH DOES NOT APPLY", out)
        return 2
    ok = True
    demo_cmd = meta.get("demo_command", "")
    feats = ""
    if "--features" in demo_cmd:
        f = demo_cmd.split("--features", 1)[1].strip()
        feats = f.split('"')[1] if f.startswith('"') else f.split()[0]
    demo_feat = ('--features "%s"' % feats) if feats else ""
    if verify:
        rc1, o1 = sh("cargo build --offline 2>&1 | tail -3", cwd=WT)
        rc2, o2 = sh('cargo build --offline --features "serde derive storage-event-control uuid_entity verif-hooks" 2>&1 | tail -3', cwd=WT)
        ran["builds"] = ("Finished" in o1) and ("Finished" in o2)
        rc3, o3 = sh("cargo test --workspace --offline --lib --tests 2>&1 | grep -E '^test result|FAILED|panicked' | head -20", cwd=WT)
        ran["existing_tests_pass"] = "FAILED" not in o3 and "failed" not in o3.replace("0 failed", "") and "test result: ok. 62 passed" in o3 and "test result: ok. 15 passed" in o3
        shutil.copy(os.path.join(src, "demo.rs"), os.path.join(WT, "tests", "seed_demo.rs"))
        rc4, o4 = sh("cargo test --offline %s --test seed_demo 2>&1 | tail -15" % demo_feat, cwd=WT)
        ran["demo_fails_with_change"] = rc4 != 0 or "FAILED" in o4 or "panicked" in o4 or "error: test failed" in o4 or "SIGABRT" in o4 or "could not compile" in o4
        ran["demo_output_with_change"] = o4[-600:]
        # without the change
        sh("git apply -R --whitespace=nowarn %s" % os.path.join(os.path.abspath(src), "patch.diff"), cwd=WT)
        rc5, o5 = sh("cargo test --offline %s --test seed_demo 2>&1 | tail -6" % demo_feat, cwd=WT)
        ran["demo_passes_without_change"] = "test result: ok" in o5 and "FAILED" not in o5
        os.remove(os.path.join(WT, "tests", "seed_demo.rs"))
        sh("git apply --whitespace=nowarn %s" % os.path.join(os.path.abspath(src), "patch.diff"), cwd=WT)
        ok = ran["builds"] and ran["existing_tests_pass"] and ran["demo_fails_with_change"] and ran["demo_passes_without_change"]
        print("verify:", {k: v for k, v in ran.items() if k != "demo_output_with_change"})
        if not ok:
            print(o3[-400:], o4[-800:], o5[-300:])
    results = {}
    for p in props:
        env = dict(os.environ, VERIF_REPO=WT)
        r = subprocess.run(["/verif/check", p, "--tier", tier], env=env, stdout=subprocess.PIPE, stderr=subprocess.PIPE, text=True)
        viol = [l for l in r.stdout.splitlines() if l.startswith("VIOLATION")]
        first = [l.strip() for l in r.stderr.splitlines() if l.strip().startswith("->")]
        notes = [l.strip() for l in r.stderr.splitlines() if l.startswith("NOTE:")]
        results[p] = {"tier": tier, "rc": r.returncode, "caught": bool(viol), "first_message": first[0][:300] if first else "", "foreign": notes[:2]}
        print("%-28s %s %s rc=%s %s %s" % (name, p, "CAUGHT" if viol else "MISSED", r.returncode, first[0][:220] if first else "", notes[0][:160] if (notes and not viol) else ""))
        sys.stdout.flush()
    sh("git checkout -- .", cwd=WT)
    if ok:
        dst = os.path.join("/verif/seeded", name)
        os.makedirs(dst, exist_ok=True)
        shutil.copy(os.path.join(src, "patch.diff"), dst)
        shutil.copy(os.path.join(src, "demo.rs"), dst)
        mpath = os.path.join(dst, "meta.json")
        old = json.load(open(mpath)) if os.path.exists(mpath) else {}
        checks = old.get("checks", {})
        checks.update(results)
        meta_out = {
            "property": meta["property"],
            "summary": meta.get("summary", ""),
            "needs_to_manifest": meta.get("needs_to_manifest", ""),
            "files_touched": meta.get("files_touched", []),
            "demo_command": demo_cmd,
            "origin": "independent sub-agent given only the property text and a scratch worktree",
            "confirmed_by_me": {k: v for k, v in (ran or old.get("confirmed_by_me", {})).items() if k != "demo_output_with_change"},
            "what_i_ran": "tools/seedcheck.py: git apply in a scratch worktree; cargo build (default and all harness features); cargo test --workspace --offline --lib --tests; demo with and without the patch; ./check <prop> with VERIF_REPO pointing at the patched worktree",
            "checks": checks,
        }
        if old.get("disposition"):
            meta_out["disposition"] = old["disposition"]
        json.dump(meta_out, open(mpath, "w"), indent=1)
    return 0 if ok else 3


if __name__ == "__main__":
    sys.exit(main())
