"""Per-property check plans: which engine runs in which build flavour, how much, per tier.

A stage = one engine in one build flavour, split into `shards` processes. `cases` is the
total number of histories / configurations over all shards."""


def st(flavour, engine, cases, ops=60, shards=8, timeout=900, **extra):
    d = {"flavour": flavour, "engine": engine, "cases": cases, "ops": ops, "shards": shards, "timeout": timeout}
    cmp_ = extra.pop("compare", None)
    if cmp_:
        d["compare"] = cmp_
    ignore = extra.pop("miri_ignore_leaks", False)
    if ignore:
        d["miri_ignore_leaks"] = True
    for k in ("miri_flags", "asan_leaks"):
        if k in extra:
            d[k] = extra.pop(k)
    if extra:
        d["extra"] = extra
    return d


def world(qcases=40000, tcases=800000, miri=True, asan=True):
    quick = [st("dbg", "world", qcases, 80, 8), st("rel", "world", qcases, 80, 8)]
    thorough = [
        st("dbg", "world", tcases, 80, 16, 3000),
        st("rel", "world", tcases, 120, 16, 3000),
        st("rel", "world", 12000, 400, 16, 3000, long=1, max_live=24),
    ]
    if miri:
        thorough.append(st("miri", "world", 48, 30, 16, 3000, lite=8))
    if asan:
        thorough.append(st("asan", "world", 60000, 80, 16, 3000))
    return {"quick": quick, "thorough": thorough}


def script(engine, path, args, timeout=3000):
    return {"flavour": "script", "engine": engine, "script": path, "args": args, "cases": 0, "timeout": timeout}


def storage(prop, qcases=96000, tcases=2400000, miri_q=False):
    quick = [st("dbg", "storage", qcases, 70, 8), st("rel", "storage", qcases, 70, 8)]
    if miri_q:
        quick.append(st("miri", "storage", 17, 18, 17, 900, small=1, lite=6))
    thorough = [
        st("miri", "storage", 17 * 4, 24, 17, 3000, small=1, lite=6),
        st("dbg", "storage", tcases, 80, 16, 3000),
        st("rel", "storage", tcases, 80, 16, 3000),
        st("rel", "storage", 9000, 60, 16, 3000, far=1),
        st("asan", "storage", 120000, 70, 16, 3000),
    ]
    return quick, thorough


def with_storage(prop, base, miri_q=False):
    q, t = storage(prop, miri_q=miri_q)
    return {"quick": base["quick"] + q, "thorough": base["thorough"] + t}


def only_storage(prop, miri_q=False):
    q, t = storage(prop, miri_q=miri_q)
    return {"quick": q, "thorough": t}


PLANS = {
    "C01": world(),
    "C02": world(),
    "C03": with_storage("C03", world()),
    "C04": only_storage("C04", miri_q=True),
    "C05": world(),
    "C06": {
        "quick": [st("dbg", "join", 32000, 12, 16), st("rel", "join", 32000, 12, 16)],
        "thorough": [st("dbg", "join", 160000, 14, 16, 3000), st("rel", "join", 320000, 14, 16, 3000),
                     st("rel", "join", 1600, 10, 16, 3000, far=1), st("asan", "join", 16000, 12, 16, 3000),
                     st("miri", "join", 16, 4, 16, 3000, small=1)],
    },
    "C07": {
        "quick": [st("dbg", "parjoin", 1600, 8, 8), st("rel", "parjoin", 1600, 8, 8)],
        "thorough": [st("dbg", "parjoin", 20000, 8, 8, 3000), st("rel", "parjoin", 40000, 8, 8, 3000),
                     st("tsan", "parjoin", 1600, 6, 8, 3000, max_pool=16),
                     st("miri", "parjoin", 16, 3, 16, 3000, small=1, max_pool=3, miri_ignore_leaks=True)],
    },
    "C08": with_storage("C08", world(), miri_q=True),
    "C12": only_storage("C12"),
    "C09": world(),
    "C10": {
        "quick": [st("dbg", "conc", 72000, 6, 8, mode="controlled"), st("rel", "conc", 1600, 300, 8, mode="stress"),
                  st("dbg", "conc", 30, 6, 10, mode="enumerate")],
        "thorough": [st("dbg", "conc", 800000, 6, 16, 3000, mode="controlled"), st("rel", "conc", 800000, 6, 16, 3000, mode="controlled"),
                     st("rel", "conc", 60000, 400, 8, 3000, mode="stress", max_threads=16),
                     st("rel", "conc", 30, 6, 15, 3000, mode="enumerate", three=1, cap=1500000),
                     st("tsan", "conc", 2400, 200, 8, 3000, mode="stress"),
                     st("miri", "conc", 32, 5, 16, 3000, mode="stress", max_threads=4, miri_flags="-Zmiri-many-seeds=0..4")],
    },
    "C11": {
        "quick": [st("dbg", "dispatch", 4000, 24, 8), st("rel", "dispatch", 4000, 24, 8)],
        "thorough": [st("dbg", "dispatch", 160000, 24, 16, 3000), st("rel", "dispatch", 160000, 24, 16, 3000),
                     st("tsan", "dispatch", 8000, 24, 8, 3000)],
    },
    "C13": only_storage("C13"),
    "C14": {
        "quick": [st("dbg", "saveload", 60000, 60, 8), st("rel", "saveload", 60000, 60, 8)],
        "thorough": [st("dbg", "saveload", 800000, 60, 16, 3000), st("rel", "saveload", 800000, 60, 16, 3000)],
    },
    "C15": {
        "quick": [st("dbg", "saveload", 60000, 60, 8), st("rel", "saveload", 60000, 60, 8)],
        "thorough": [st("dbg", "saveload", 600000, 60, 16, 3000), st("rel", "saveload", 300000, 200, 16, 3000)],
    },
    "C16": {
        "quick": [st("dbg", "changeset", 80000, 14, 8), st("rel", "changeset", 80000, 14, 8)],
        "thorough": [st("dbg", "changeset", 1600000, 16, 16, 3000), st("rel", "changeset", 1600000, 16, 16, 3000),
                     st("asan", "changeset", 160000, 14, 16, 3000), st("miri", "changeset", 48, 8, 16, 3000, small=1)],
    },
    "C17": world(miri=False, asan=False),
    "C19": {
        "quick": [st("dbg", "panicdrop", 1632 * 20, 12, 8), st("rel", "panicdrop", 1632 * 20, 12, 8),
                  st("miri", "panicdrop", 34, 3, 17, 900)],
        "thorough": [st("dbg", "panicdrop", 1632 * 160, 12, 16, 3000), st("rel", "panicdrop", 1632 * 160, 12, 16, 3000),
                     st("rel", "panicdrop", 1632 * 40, 12, 16, 3000, big=1), st("asan", "panicdrop", 1632 * 8, 12, 16, 3000, asan_leaks=0),
                     st("miri", "panicdrop", 187 * 2, 4, 17, 3000)],
    },
    "C20": {
        "quick": [st("dbg", "det", 24000, 60, 4, compare="x"), st("dbg", "det", 24000, 60, 4, compare="x"),
                  st("rel", "det", 24000, 60, 4, compare="x"), st("rel", "det", 24000, 60, 4, compare="x")],
        "thorough": [st(f, "det", 320000, 80, 8, 3000, compare="x") for f in ("dbg", "dbg", "dbg", "dbg", "rel", "rel", "rel", "rel")]
                    + [st("asan", "det", 8000, 80, 8, 3000, compare="y"), st("dbg", "det", 8000, 80, 8, 3000, compare="y")],
    },
    "C18": {
        "quick": [script("derivegen", "derivegen/derivegen.py", ["--types", 150, "--values", 200, "--batches", 3])],
        "thorough": [script("derivegen", "derivegen/derivegen.py", ["--types", 1500, "--values", 2000, "--batches", 10,
                                                                    "--formats", "json,ron", "--markers", 2])],
    },
}

LEVELS = {"C19": "fault_enumeration"}

RULES = {
    "C01": "random histories over all 9 creation paths x 4 deletion paths x maintain (seeded generator, hostile motifs planted); "
           "non-trivial = history with >=1 index reuse (same id, higher generation) and >=1 creation while another entity awaits maintain; "
           "distinct = distinct sequences of operation kinds",
    "C02": "same histories as C01; non-trivial = history with >=1 wrong-generation deletion, >=1 failing batch and >=1 aliveness probe of a stale handle whose index is occupied again",
    "C03": "stale handles (index reused 0..n times, occupant merged or awaiting maintain) sent through every handle-taking access path; "
           "non-trivial = history probing >=3 distinct access paths with dead handles and >=1 probe against an occupied index",
    "C05": "histories over 3-9 storages of mixed kinds registered by register / register_with_storage / SystemData::setup / Dispatcher::setup, some late or twice; "
           "non-trivial = history where a deleted entity owned components in >=2 storages, an index was reused, and >=2 registration paths were used",
    "C08": "ledger of instrumented values over world histories ending with drop(world); non-trivial = history in which values left through each of: return to caller, entity deletion, clear, world drop",
    "C09": "histories with lazy insert / insert_all / remove / exec / exec_mut / LazyBuilder and nested enqueues over 1-6 maintains; non-trivial = history with >=1 nested enqueue and >=3 queued actions executed",
    "C17": "histories incl. long ones with failing batches weighted up; non-trivial = history with a failing batch whose killed prefix is non-empty followed by >=1 creation",
}

RULES.update({
    "C04": "random operation sequences (18 handle-taking access paths, shared/mutable/lending joins, entries(), full/partial/early-dropped drain, clear, slice views, entity churn) per storage kind x wrapper (17 combinations) over dense, sparse and layer-boundary index sets, compared with a BTreeMap after every operation; "
           "non-trivial = history with a remove-from-the-middle followed by a re-insert (dense swap-remove path) and, for slice-capable kinds, >=1 slice comparison",
    "C06": "45 macro-generated join shapes of arity 1-16 mixing &ReadStorage, &mut WriteStorage, &Entities, bit sets and their And/Or/Xor/Not combinations, AtomicBitSet, negated storages, .maybe(), restricted views, change sets (shared / mutable / by value) and drain over 19 storage kinds, run as join / lend_join.next / lend_join.for_each / lend_join.get+get_unchecked over hostile membership assignments (empty, singletons, dense runs, densities 1..2^-11, layer-boundary indices, entities awaiting maintain); "
           "non-trivial = configuration whose intersection is non-empty, differs from at least one member's own set and spans >=2 layer-0 words",
    "C07": "16 parallel join shapes (entities, shared / mutable storages of every DistinctStorage kind, maybe, anti, bit sets, restricted views; arity 1-12) on rayon pools of 1, 2, 3, 4, 8, 16 and 64 threads, run as map+collect / for_each / fold+reduce with seeded per-item delays so stealing and producer splitting vary; "
           "non-trivial = run in which >=2 threads delivered items and the joined indices span >=2 layer-1 words (>= 4096 apart); distinct = distinct (shape, pool, index->thread partition) signatures",
    "C16": "change sets built by collect / extend / add / clear from (entity, amount) sequences with four repetition patterns (all same, round robin, runs, random) over dense, sparse and layer-boundary indices incl. dead entities; amounts are sequences whose += appends and carry a ledger value; joined shared / mutable / by value (complete, partial, with storages, lending); "
           "non-trivial = case in which some entity received >=3 amounts interleaved with other entities' amounts",
    "C19": "enumerated grid: 17 storage kind / wrapper combinations x 11 destroying operations (clear, delete_entity, delete_entities, deferred delete + maintain, delete_all, drop(world), drop(world) with queued lazy inserts, lazy overwrite + maintain, refused insert / default placeholder overwrite, lazy remove + maintain, ChangeSet clear / drop / by-value join dropped midway) x panicking destructor call k in {1..6, middle, last}, random populations, then random continuation on the surviving world; "
           "non-trivial = case where the panicking destructor call was neither the first nor the last of >=3 destroyed values",
    "C10": "small concurrent programs (2-4 threads x 1-6 ops in controlled mode; 2-16 threads x hundreds of ops in stress mode) of Entities::create / create_iter / build_entity / delete / is_alive / join and LazyUpdate exec / insert / create_entity on worlds pre-seeded with 0-5 live entities and 0-3 free-list entries, 1-3 concurrent phases each followed by maintain; controlled mode drives the interleaving of the hooked atomic steps with a seeded token-passing scheduler; "
           "non-trivial (controlled) = schedule with >=1 context switch from a thread stopped between atomic steps into another thread that is also between atomic steps; distinct = distinct recorded schedules. "
           "Mode `enumerate` additionally enumerates, depth first, EVERY schedule the scheduler can produce (all orders of the hooked atomic steps and operation boundaries) for 8 two-thread programs x 3 initial allocator states (quick; thorough adds two three-thread programs, capped)",
    "C20": "single-threaded histories (create now / atomic / lazy with components and markers, delete now / atomic / batch, maintain, insert / remove, joins incl. over HashMapStorage with maybe and anti members, mutable join + event stream of a tracked storage, mark, serialise to JSON / RON, load back) replayed (i) in two worlds in lock-step, (ii) in a world driven while unrelated worlds are mutated in between and on another thread, (iii) in 4 (quick) / 8+ (thorough) separate processes in debug and release builds whose per-case transcript hashes are compared by the driver; "
           "non-trivial = history whose transcript includes a join over the hash-map storage and serialisations of >=3 entities; distinct = distinct transcript hashes",
    "C11": "random system graphs (331 system-data shapes over 4 component storages + Entities + Read<LazyUpdate>, random DAG dependencies, barriers, thread-local systems, pools of 1-32 threads, 3-10 dispatches each); "
           "non-trivial = graph with >=2 systems sharing a storage of which >=1 writes and a dispatch in which >=2 systems overlapped in logical time",
    "C12": "the C04 operation sequences on the 11 tracked wrapper/inner combinations with a registered reader; window = one operation; event emission toggled at random points; clear() excluded; "
           "non-trivial = history with removals through >=2 of remove / entry / drain / entity deletion and >=1 read-only access checked silent",
    "C13": "restricted views: (&restrict()).join/lend_join, (&mut restrict_mut()).join/lend_join with seeded subsets fetched via get / get_mut (written or not) and get_other / get_other_mut lookups of live, component-less, dead and stale-reused entities; "
           "non-trivial = run with a strict, non-empty subset fetched mutably on a tracked storage (any restricted join for untracked kinds)",
    "C14": "seeded worlds (0-60, occasionally 300 entities; random marked subset; 6 serialised component types incl. derived ConvertSaveload structs/enums holding Entity; self loops, cycles, forward references; JSON record order permuted), both marker kinds, RON and JSON, serialize and serialize_recursive; "
           "non-trivial = world with a cycle or forward reference among transferred entities and >=1 entity lacking >=1 serialised component type",
    "C15": "histories of mark / create-marked (4 paths) / delete / maintain / allocator.maintain / serialise / deserialise (own past buffers, other worlds, repeated, ids above the counter); marker-uniqueness checked after every step; "
           "non-trivial = history containing a load that both updates >=1 existing entity (removing >=1 absent component) and creates >=1 new one, after >=1 deletion that left a stale mapping",
    "C18": "type definitions drawn from the grammar of shapes the derive macros accept (named/tuple structs 1-12 fields, enums mixing unit/tuple/struct variants, nesting <= 3, generics, skip and forwarded attributes, Entity / Probe / plain fields), each compiled against the real macro and run on seeded values; "
           "non-trivial = type with >=2 fields of the same type or >=2 variants and >=1 Entity reachable; distinct = distinct shape hashes",
})

ASSUMPTIONS = {
    "_common": [
        "observations are made through the public API plus the read-only verif-hooks snapshot; the harness's own reference models are trusted",
        "universal quantifiers are sampled, not enumerated: the verdict is 'held on the executions observed'",
    ],
}
for _p in list(RULES):
    ASSUMPTIONS[_p] = list(ASSUMPTIONS["_common"])


# a destructor panic must not make a value be destroyed twice (C08) nor lose a Removed event (C12):
# the fault-enumeration engine also runs under these properties' checks
for _p in ("C08", "C12"):
    PLANS[_p]["quick"].append(st("dbg", "panicdrop", 1632 * 10, 12, 8))
    PLANS[_p]["thorough"].append(st("rel", "panicdrop", 1632 * 20, 12, 16, 3000))

# C16 across a caught destructor panic inside ChangeSet::clear / drop / by-value join
PLANS["C16"]["quick"].append(st("dbg", "panicdrop", 1632 * 10, 12, 8, only_op="changeset"))
PLANS["C16"]["thorough"].append(st("rel", "panicdrop", 1632 * 20, 12, 16, 3000, only_op="changeset"))
# C17 under concurrent creation: a fresh index only once the free list is exhausted
PLANS["C17"]["quick"].append(st("rel", "conc", 1200, 300, 8, mode="stress"))
PLANS["C17"]["quick"].append(st("dbg", "conc", 12000, 6, 8, mode="controlled"))
PLANS["C17"]["thorough"].append(st("rel", "conc", 40000, 400, 8, 3000, mode="stress", max_threads=16))
PLANS["C17"]["thorough"].append(st("dbg", "conc", 400000, 6, 16, 3000, mode="controlled"))

# handle uniqueness (C01) also under concurrent shared-access creation
PLANS["C01"]["quick"].append(st("rel", "conc", 1200, 300, 8, mode="stress"))
PLANS["C01"]["quick"].append(st("dbg", "conc", 12000, 6, 8, mode="controlled"))
PLANS["C01"]["thorough"].append(st("rel", "conc", 40000, 400, 8, 3000, mode="stress", max_threads=16))
PLANS["C01"]["thorough"].append(st("dbg", "conc", 400000, 6, 16, 3000, mode="controlled"))

# C04: an insertion whose default-filler construction panics must leave the map unchanged
PLANS["C04"]["quick"].append(st("dbg", "panicdrop", 1632 * 10, 12, 8, only_op="insert_with_panicking_default+clear"))
PLANS["C04"]["thorough"].append(st("rel", "panicdrop", 1632 * 20, 12, 16, 3000, only_op="insert_with_panicking_default+clear"))

# C20 over the histories of the world and storage engines (every creation / deletion path, lazy updates,
# all storage kinds): each case is replayed twice in-process and hashed for the cross-process comparison
for _f in ("dbg", "rel"):
    PLANS["C20"]["quick"].append(st(_f, "world", 1600, 80, 4, compare="w"))
    PLANS["C20"]["quick"].append(st(_f, "storage", 3200, 60, 4, compare="s"))
for _f in ("dbg", "dbg", "rel", "rel"):
    PLANS["C20"]["thorough"].append(st(_f, "world", 120000, 80, 8, 3000, compare="w"))
    PLANS["C20"]["thorough"].append(st(_f, "storage", 240000, 60, 8, 3000, compare="s"))
