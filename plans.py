"""Per-property check plans: which engine runs in which build flavour, how much, per tier.

A stage = one engine in one build flavour, split into `shards` processes. `cases` is the
total number of histories / configurations over all shards."""


def st(flavour, engine, cases, ops=60, shards=8, timeout=900, **extra):
    d = {"flavour": flavour, "engine": engine, "cases": cases, "ops": ops, "shards": shards, "timeout": timeout}
    ignore = extra.pop("miri_ignore_leaks", False)
    if ignore:
        d["miri_ignore_leaks"] = True
    if extra:
        d["extra"] = extra
    return d


def world(qcases=4000, tcases=240000, miri=True, asan=True):
    quick = [st("dbg", "world", qcases, 80, 8), st("rel", "world", qcases, 80, 8)]
    thorough = [
        st("dbg", "world", tcases, 80, 16, 3000),
        st("rel", "world", tcases, 120, 16, 3000),
        st("rel", "world", 4000, 400, 16, 3000, long=1, max_live=24),
    ]
    if miri:
        thorough.append(st("miri", "world", 64, 36, 16, 3000))
    if asan:
        thorough.append(st("asan", "world", 20000, 80, 16, 3000))
    return {"quick": quick, "thorough": thorough}


PLANS = {
    "C01": world(),
    "C02": world(),
    "C03": world(),
    "C05": world(),
    "C08": world(),
    "C09": world(),
    "C17": world(miri=False, asan=False),
}

LEVELS = {}

RULES = {
    "C01": "random histories over all 9 creation paths x 4 deletion paths x maintain (seeded generator, hostile motifs planted); "
           "non-trivial = history with >=1 index reuse (same id, higher generation) and >=1 creation while another entity awaits maintain; "
           "distinct = distinct sequences of operation kinds",
    "C02": "same histories as C01; non-trivial = history with >=1 wrong-generation deletion, >=1 failing batch and >=1 aliveness probe of a stale handle whose index is occupied again",
    "C03": "stale handles (index reused 0..n times, occupant merged or awaiting maintain) sent through every handle-taking access path; "
           "non-trivial = history probing >=3 distinct access paths with dead handles and >=1 probe against an occupied index",
    "C05": "histories over 3-9 storages of mixed kinds registered by register / register_with_storage / SystemData::setup / Dispatcher::setup, some late or twice; "
           "non-trivial = history where a deleted entity owned components in >=2 storages, an index was reused, and >=2 registration paths were used",
    "C08": "ledger of instrumented values over world histories ending with drop(world); non-trivial = history in which values left through each of: return to caller, entity deletion, clear, world drop",
    "C09": "histories with lazy insert / insert_all / remove / exec / exec_mut / LazyBuilder and nested enqueues over 1-6 maintains; non-trivial = history with >=1 nested enqueue and >=3 queued actions executed",
    "C17": "histories incl. long ones with failing batches weighted up; non-trivial = history with a failing batch whose killed prefix is non-empty followed by >=1 creation",
}

ASSUMPTIONS = {
    "_common": [
        "observations are made through the public API plus the read-only verif-hooks snapshot; the harness's own reference models are trusted",
        "universal quantifiers are sampled, not enumerated: the verdict is 'held on the executions observed'",
    ],
}
for _p in list(RULES):
    ASSUMPTIONS[_p] = list(ASSUMPTIONS["_common"])
