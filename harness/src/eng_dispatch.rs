//! Engine `dispatch` (property C11): random system graphs dispatched by the
//! real shred dispatcher on rayon pools of several sizes.
//!
//! Oracles (all on logical events, never on wall-clock):
//!  (i)   overlap monitor: every generated system updates per-storage
//!        reader / writer counters with single atomic RMWs on entry and exit,
//!        checks the mutual-exclusion invariant on the values the RMWs return,
//!        stamps entry / exit from one global logical clock, writes tokens /
//!        reads twice between entry and exit (a concurrent writer is visible as
//!        a foreign or torn value), and the driver re-checks after the dispatch
//!        that the [enter, exit] intervals of no conflicting pair intersect;
//!  (ii)  exactly-once, declared dependencies, barriers, thread-local systems
//!        last, decided on the stamps;
//!  (iii) no panic escapes `dispatch` (e.g. "already mutably borrowed");
//!  (iv)  declaration monitor: after `T::fetch(&world)` every candidate resource
//!        is probed with `try_fetch` / `try_fetch_mut` and the borrow state
//!        (none / shared / exclusive) is compared with `T::reads()` /
//!        `T::writes()`.
//!
//! System data types are real specs types: the macro `shapes!` generates, for
//! all 3^4 combinations of {none, read, write} over the components A..D times
//! {with, without} `Entities` times {with, without} `Read<LazyUpdate>`, the
//! tuple type `(ReadStorage<'a, A>, WriteStorage<'a, C>, Entities<'a>, ..)`;
//! a few bare (non-tuple) and nested shapes are added by hand.
//!
//! Systems also declare random `running_time()`s: with the default value shred
//! never chains two systems into one group of a stage, so that part of the
//! scheduler would stay unexercised. Before the cases the overlap monitor is fed
//! eight hand-made histories (`monitor_selftest`); if it misses one the run is
//! marked inconclusive.
//!
//! Extra switches: `--decl 0` disables the declaration monitor, `--par 0`
//! disables the dispatches (declaration monitor only), `--spin N` bounds the
//! rendezvous wait (iterations, not time; default 400, 0 = no waiting).

use std::collections::BTreeMap;
use std::marker::PhantomData;
use std::panic::{catch_unwind, AssertUnwindSafe};
use std::sync::atomic::{AtomicU64, Ordering::SeqCst};
use std::sync::{Arc, Mutex};

use serde_json::json;
use specs::prelude::*;
use specs::rayon::{ThreadPool, ThreadPoolBuilder};
use specs::storage::{BTreeStorage, MaskedStorage};
use specs::world::{EntitiesRes, Index};
use specs::RunningTime;

use crate::report::{trace, Report};
use crate::rng::{derive, hash_str, mix, Rng, Sig};

const NC: usize = 4;
const CNAME: [&str; NC] = ["A", "B", "C", "D"];
const POOLS: [usize; 7] = [1, 2, 3, 4, 8, 16, 32];
const MAX_FAULTS: usize = 8;

// ---------------------------------------------------------------------------
// component values: four words derived from one token, so that a torn or
// half-written value is recognisable
// ---------------------------------------------------------------------------

fn enc(t: u64) -> [u64; 4] {
    [t, !t, t.rotate_left(17) ^ 0x5DEE_CE66_D1CE_4E5B, t.wrapping_mul(0x9E37_79B9_7F4A_7C15)]
}

fn dec(w: &[u64; 4]) -> Option<u64> {
    if *w == enc(w[0]) {
        Some(w[0])
    } else {
        None
    }
}

/// token written by system `id` in dispatch `dn` into storage `ci`
fn token(id: usize, dn: u64, ci: usize) -> u64 {
    (1u64 << 62) | ((id as u64) << 40) | ((dn & 0xFFFF_FFFF) << 8) | ci as u64
}

// ---------------------------------------------------------------------------
// monitor (shared by all systems of one case; atomics and one mutex only)
// ---------------------------------------------------------------------------

pub struct Monitor {
    case_seed: u64,
    pool: usize,
    spin_max: u64,
    clock: AtomicU64,
    entries: AtomicU64,
    dispatch_no: AtomicU64,
    readers: [AtomicU64; NC],
    writers: [AtomicU64; NC],
    inside: AtomicU64,
    max_inside: AtomicU64,
    runs: Vec<AtomicU64>,
    enter: Vec<AtomicU64>,
    exit: Vec<AtomicU64>,
    initial: Vec<Entity>,
    faults: Mutex<Vec<(&'static str, String)>>,
    // evidence
    values_written: AtomicU64,
    values_read: AtomicU64,
    structural: AtomicU64,
    ent_created: AtomicU64,
    ent_deleted: AtomicU64,
    lazy_queued: AtomicU64,
    /// spawner graph: every system holding `Entities` creates hundreds of entities per run
    burst: std::sync::atomic::AtomicBool,
}

fn atomics(n: usize) -> Vec<AtomicU64> {
    (0..n).map(|_| AtomicU64::new(0)).collect()
}

impl Monitor {
    fn new(case_seed: u64, pool: usize, spin_max: u64, nsys: usize, initial: Vec<Entity>) -> Monitor {
        Monitor {
            case_seed,
            pool,
            spin_max,
            clock: AtomicU64::new(0),
            entries: AtomicU64::new(0),
            dispatch_no: AtomicU64::new(0),
            readers: Default::default(),
            writers: Default::default(),
            inside: AtomicU64::new(0),
            max_inside: AtomicU64::new(0),
            runs: atomics(nsys),
            enter: atomics(nsys),
            exit: atomics(nsys),
            initial,
            faults: Mutex::new(Vec::new()),
            values_written: AtomicU64::new(0),
            values_read: AtomicU64::new(0),
            structural: AtomicU64::new(0),
            ent_created: AtomicU64::new(0),
            ent_deleted: AtomicU64::new(0),
            lazy_queued: AtomicU64::new(0),
            burst: std::sync::atomic::AtomicBool::new(false),
        }
    }
    fn fault(&self, sig: &'static str, msg: String) {
        let mut f = self.faults.lock().unwrap_or_else(|e| e.into_inner());
        if f.len() < MAX_FAULTS {
            f.push((sig, msg));
        }
    }
    fn take_faults(&self) -> Vec<(&'static str, String)> {
        std::mem::take(&mut *self.faults.lock().unwrap_or_else(|e| e.into_inner()))
    }
    fn tick(&self) -> u64 {
        self.clock.fetch_add(1, SeqCst) + 1
    }
}

/// Per-run scratch of one system.
pub struct Cx<'m> {
    m: &'m Monitor,
    id: usize,
    dn: u64,
    rng: Rng,
    sum: [u64; NC],
    cnt: [u64; NC],
    written: u64,
    read: u64,
    created: Option<Entity>,
}

impl<'m> Cx<'m> {
    fn some_initial(&mut self) -> Option<Entity> {
        if self.m.initial.is_empty() {
            None
        } else {
            Some(self.m.initial[self.rng.below(self.m.initial.len())])
        }
    }
    /// Bounded wait (iterations, seeded) for another system to enter while this
    /// one is inside: makes real overlap likely without any clock.
    fn rendezvous(&mut self, entries_at_enter: u64, tl: bool) {
        if self.m.pool <= 1 || tl || self.m.spin_max == 0 {
            return;
        }
        let r = self.rng.next();
        let limit = match r % 16 {
            0..=6 => (r >> 8) % 24,
            7..=12 => (r >> 8) % 200,
            _ => (r >> 8) % self.m.spin_max,
        };
        for i in 0..limit {
            if self.m.entries.load(SeqCst) != entries_at_enter {
                break;
            }
            if i % 4 == 3 {
                std::thread::yield_now();
            } else {
                for _ in 0..8 {
                    std::hint::spin_loop();
                }
            }
        }
    }
    fn pause(&mut self) {
        let r = self.rng.next();
        let n = (r >> 8) % 48;
        for i in 0..n {
            if i % 16 == 15 && self.m.pool > 1 {
                std::thread::yield_now();
            } else {
                std::hint::spin_loop();
            }
        }
    }
}

/// What every piece of system data does for the monitor.
pub trait Part {
    fn enter(&self, cx: &mut Cx);
    fn phase1(&mut self, cx: &mut Cx);
    fn phase2(&mut self, cx: &mut Cx);
    fn exit(&self, cx: &mut Cx);
}

impl Part for () {
    fn enter(&self, _: &mut Cx) {}
    fn phase1(&mut self, _: &mut Cx) {}
    fn phase2(&mut self, _: &mut Cx) {}
    fn exit(&self, _: &mut Cx) {}
}

macro_rules! comp {
    ($name:ident, $storage:ident, $ci:expr) => {
        #[derive(Clone, Debug, PartialEq, Eq)]
        pub struct $name(pub [u64; 4]);
        impl Component for $name {
            type Storage = $storage<Self>;
        }

        impl<'a> Part for ReadStorage<'a, $name> {
            #[inline(never)]
            fn enter(&self, cx: &mut Cx) {
                let m = cx.m;
                let _r = m.readers[$ci].fetch_add(1, SeqCst);
                let w = m.writers[$ci].load(SeqCst);
                if w != 0 {
                    m.fault(
                        "C11:reader-overlaps-writer",
                        format!(
                            "dispatch #{}: system s{} entered holding ReadStorage<{}> while {} writer(s) of that storage were running",
                            cx.dn, cx.id, CNAME[$ci], w
                        ),
                    );
                }
            }
            #[inline(never)]
            fn phase1(&mut self, cx: &mut Cx) {
                let (s, n, bad) = read_all_of(&*self);
                cx.sum[$ci] = s;
                cx.cnt[$ci] = n;
                cx.read += n;
                if let Some(w) = bad {
                    cx.m.fault(
                        "C11:reader-saw-torn-value",
                        format!(
                            "dispatch #{}: system s{} read an inconsistent {} value {:x?} through ReadStorage",
                            cx.dn, cx.id, CNAME[$ci], w
                        ),
                    );
                }
            }
            #[inline(never)]
            fn phase2(&mut self, cx: &mut Cx) {
                let (s, n, _) = read_all_of(&*self);
                cx.read += n;
                if s != cx.sum[$ci] || n != cx.cnt[$ci] {
                    cx.m.fault(
                        "C11:reader-saw-change",
                        format!(
                            "dispatch #{}: system s{} read storage {} twice while holding ReadStorage and got different contents ({} values, sum {:x}; then {} values, sum {:x})",
                            cx.dn, cx.id, CNAME[$ci], cx.cnt[$ci], cx.sum[$ci], n, s
                        ),
                    );
                }
            }
            #[inline(never)]
            fn exit(&self, cx: &mut Cx) {
                let m = cx.m;
                let w = m.writers[$ci].load(SeqCst);
                let _r = m.readers[$ci].fetch_sub(1, SeqCst);
                if w != 0 {
                    m.fault(
                        "C11:reader-overlaps-writer",
                        format!(
                            "dispatch #{}: system s{} still held ReadStorage<{}> when {} writer(s) of that storage were running",
                            cx.dn, cx.id, CNAME[$ci], w
                        ),
                    );
                }
            }
        }

        impl<'a> Part for WriteStorage<'a, $name> {
            #[inline(never)]
            fn enter(&self, cx: &mut Cx) {
                let m = cx.m;
                let w = m.writers[$ci].fetch_add(1, SeqCst);
                let r = m.readers[$ci].load(SeqCst);
                if w != 0 || r != 0 {
                    m.fault(
                        "C11:writer-overlaps",
                        format!(
                            "dispatch #{}: system s{} entered holding WriteStorage<{}> while {} other writer(s) and {} reader(s) of that storage were running",
                            cx.dn, cx.id, CNAME[$ci], w, r
                        ),
                    );
                }
            }
            #[inline(never)]
            fn phase1(&mut self, cx: &mut Cx) {
                let tok = token(cx.id, cx.dn, $ci);
                // one structural change (insert / remove) on a pre-existing entity
                match cx.rng.below(4) {
                    0 => {
                        if let Some(e) = cx.some_initial() {
                            let _ = self.insert(e, $name(enc(tok)));
                            cx.m.structural.fetch_add(1, SeqCst);
                        }
                    }
                    1 => {
                        if let Some(e) = cx.some_initial() {
                            let _ = self.remove(e);
                            cx.m.structural.fetch_add(1, SeqCst);
                        }
                    }
                    _ => {}
                }
                let mut n = 0u64;
                for c in (&mut *self).join() {
                    *c = $name(enc(tok));
                    n += 1;
                }
                cx.cnt[$ci] = n;
                cx.written += n;
            }
            #[inline(never)]
            fn phase2(&mut self, cx: &mut Cx) {
                let tok = token(cx.id, cx.dn, $ci);
                let mut n = 0u64;
                let mut bad: Option<[u64; 4]> = None;
                for c in (&*self).join() {
                    if dec(&c.0) != Some(tok) && bad.is_none() {
                        bad = Some(c.0);
                    }
                    n += 1;
                }
                cx.read += n;
                if let Some(w) = bad {
                    cx.m.fault(
                        "C11:writer-lost-its-token",
                        format!(
                            "dispatch #{}: system s{} wrote token {:x} into every {} through WriteStorage and before leaving found {:x?}",
                            cx.dn, cx.id, tok, CNAME[$ci], w
                        ),
                    );
                } else if n != cx.cnt[$ci] {
                    cx.m.fault(
                        "C11:writer-saw-change",
                        format!(
                            "dispatch #{}: system s{} wrote {} values of {} and found {} before leaving",
                            cx.dn, cx.id, cx.cnt[$ci], CNAME[$ci], n
                        ),
                    );
                }
            }
            #[inline(never)]
            fn exit(&self, cx: &mut Cx) {
                let m = cx.m;
                let r = m.readers[$ci].load(SeqCst);
                let w = m.writers[$ci].fetch_sub(1, SeqCst);
                if w != 1 || r != 0 {
                    m.fault(
                        "C11:writer-overlaps",
                        format!(
                            "dispatch #{}: system s{} still held WriteStorage<{}> when {} other writer(s) and {} reader(s) of that storage were running",
                            cx.dn, cx.id, CNAME[$ci], w.wrapping_sub(1), r
                        ),
                    );
                }
            }
        }

        impl HasWords for $name {
            fn words(&self) -> &[u64; 4] {
                &self.0
            }
        }
    };
}

pub trait HasWords {
    fn words(&self) -> &[u64; 4];
}

/// order-sensitive checksum, number of values, first inconsistent value
fn read_all_of<'s, 'a: 's, T>(s: &'s ReadStorage<'a, T>) -> (u64, u64, Option<[u64; 4]>)
where
    T: Component + HasWords,
{
    let mut sum = 0u64;
    let mut n = 0u64;
    let mut bad = None;
    for c in s.join() {
        let w = c.words();
        if dec(w).is_none() && bad.is_none() {
            bad = Some(*w);
        }
        sum = mix(sum ^ w[0]) ^ w[3];
        n += 1;
    }
    (sum, n, bad)
}


/// A user storage without a default value (`TryDefault` fails): it has to be registered up front
/// through `register_with_storage`, and every later `setup` (dispatcher, `exec`, `World::setup`) has
/// to leave the registered storage alone instead of trying to build another one.
pub struct NoDefaultStorage<T>(BTreeStorage<T>, #[allow(dead_code)] u32);

impl<T> NoDefaultStorage<T> {
    pub fn with_tag(tag: u32) -> Self {
        NoDefaultStorage(BTreeStorage::default(), tag)
    }
}

impl<T> specs::storage::TryDefault for NoDefaultStorage<T> {
    fn try_default() -> Result<Self, String> {
        Err("NoDefaultStorage has no default: it must be registered with register_with_storage".into())
    }
}

impl<T> specs::storage::UnprotectedStorage<T> for NoDefaultStorage<T> {
    type AccessMut<'a> = <BTreeStorage<T> as specs::storage::UnprotectedStorage<T>>::AccessMut<'a> where T: 'a;

    unsafe fn clean<B>(&mut self, has: B)
    where
        B: specs::hibitset::BitSetLike,
    {
        unsafe { self.0.clean(has) }
    }
    unsafe fn get(&self, id: Index) -> &T {
        unsafe { self.0.get(id) }
    }
    unsafe fn get_mut(&mut self, id: Index) -> Self::AccessMut<'_> {
        unsafe { self.0.get_mut(id) }
    }
    unsafe fn insert(&mut self, id: Index, value: T) {
        unsafe { self.0.insert(id, value) }
    }
    unsafe fn remove(&mut self, id: Index) -> T {
        unsafe { self.0.remove(id) }
    }
}

impl<T> specs::storage::SharedGetMutStorage<T> for NoDefaultStorage<T> {
    unsafe fn shared_get_mut(&self, id: Index) -> Self::AccessMut<'_> {
        unsafe { self.0.shared_get_mut(id) }
    }
}

comp!(A, VecStorage, 0);
comp!(B, DenseVecStorage, 1);
comp!(C, HashMapStorage, 2);
comp!(D, NoDefaultStorage, 3);

impl<'a> Part for Entities<'a> {
    fn enter(&self, _: &mut Cx) {}
    #[inline(never)]
    fn phase1(&mut self, cx: &mut Cx) {
        let spawner = cx.m.burst.load(SeqCst);
        match if spawner { 5 } else { cx.rng.below(6) } {
            5 => {
                // a burst of creations (co-staged systems race on the free list and the index counter);
                // most of them are deleted again so that the next frame starts with a long free list
                let n = if spawner { 300 + cx.rng.below(1200) } else { 20 + cx.rng.below(180) };
                for k in 0..n {
                    let e = self.create();
                    cx.m.ent_created.fetch_add(1, SeqCst);
                    if k % 8 != 0 && self.delete(e).is_ok() {
                        cx.m.ent_deleted.fetch_add(1, SeqCst);
                    }
                }
            }
            0 => {
                cx.created = Some(self.create());
                cx.m.ent_created.fetch_add(1, SeqCst);
            }
            1 => {
                if let Some(e) = cx.some_initial() {
                    if self.delete(e).is_ok() {
                        cx.m.ent_deleted.fetch_add(1, SeqCst);
                    }
                }
            }
            2 => {
                let e = self.create();
                cx.m.ent_created.fetch_add(1, SeqCst);
                if self.delete(e).is_ok() {
                    cx.m.ent_deleted.fetch_add(1, SeqCst);
                }
            }
            _ => {
                // read-only use
                let mut n = 0u64;
                for e in (&**self).join() {
                    if self.is_alive(e) {
                        n += 1;
                    }
                }
                cx.read += n;
            }
        }
    }
    fn phase2(&mut self, _: &mut Cx) {}
    fn exit(&self, _: &mut Cx) {}
}

impl<'a> Part for Read<'a, LazyUpdate> {
    fn enter(&self, _: &mut Cx) {}
    fn phase1(&mut self, _: &mut Cx) {}
    #[inline(never)]
    fn phase2(&mut self, cx: &mut Cx) {
        let target = match cx.created {
            Some(e) => Some(e),
            None => cx.some_initial(),
        };
        let e = match target {
            Some(e) => e,
            None => return,
        };
        let t = (1u64 << 61) | token(cx.id, cx.dn, 0);
        match cx.rng.below(8) {
            0 => self.insert(e, A(enc(t))),
            1 => self.insert(e, B(enc(t | 1))),
            2 => self.insert(e, C(enc(t | 2))),
            3 => self.insert(e, D(enc(t | 3))),
            4 => self.remove::<B>(e),
            5 => self.remove::<C>(e),
            _ => return,
        }
        cx.m.lazy_queued.fetch_add(1, SeqCst);
    }
    fn exit(&self, _: &mut Cx) {}
}

macro_rules! tuple_part {
    ($($p:ident $i:tt),+) => {
        impl<$($p: Part),+> Part for ($($p,)+) {
            fn enter(&self, cx: &mut Cx) { $( self.$i.enter(cx); )+ }
            fn phase1(&mut self, cx: &mut Cx) { $( self.$i.phase1(cx); )+ }
            fn phase2(&mut self, cx: &mut Cx) { $( self.$i.phase2(cx); )+ }
            fn exit(&self, cx: &mut Cx) { $( self.$i.exit(cx); )+ }
        }
    };
}
tuple_part!(P0 0);
tuple_part!(P0 0, P1 1);
tuple_part!(P0 0, P1 1, P2 2);
tuple_part!(P0 0, P1 1, P2 2, P3 3);
tuple_part!(P0 0, P1 1, P2 2, P3 3, P4 4);
tuple_part!(P0 0, P1 1, P2 2, P3 3, P4 4, P5 5);

// ---------------------------------------------------------------------------
// generated systems
// ---------------------------------------------------------------------------

/// A shape of system data: maps a marker type to the real specs data type.
pub trait Shape: 'static {
    type Data<'a>: SystemData<'a> + Part;
    /// per component 0 = not held, 1 = ReadStorage, 2 = WriteStorage
    const MODES: [u8; NC];
    const ENT: bool;
    const LAZY: bool;
    /// 0 = tuple generated by `shapes!`, otherwise a hand-written variant
    const VARIANT: u8;
    /// the data type as written in the source
    const NAME: &'static str;
}

pub struct Mk<const MA: u8, const MB: u8, const MC: u8, const MD: u8, const E: bool, const L: bool>;
pub struct Bare<const K: u8>;

#[derive(Clone)]
pub struct SysCore {
    mon: Arc<Monitor>,
    id: usize,
    tl: bool,
    /// declared running time 1..=5 (shred only chains systems into one group
    /// of a stage when that balances the declared running times)
    rt: u8,
}

pub struct Sys<S> {
    core: SysCore,
    _p: PhantomData<fn() -> S>,
}

impl<'a, S: Shape> System<'a> for Sys<S> {
    type SystemData = S::Data<'a>;
    fn run(&mut self, mut d: S::Data<'a>) {
        run_body(&self.core, &mut d);
    }
    fn running_time(&self) -> RunningTime {
        match self.core.rt {
            1 => RunningTime::VeryShort,
            2 => RunningTime::Short,
            3 => RunningTime::Average,
            4 => RunningTime::Long,
            _ => RunningTime::VeryLong,
        }
    }
}

fn run_body<P: Part>(core: &SysCore, d: &mut P) {
    let m = &*core.mon;
    let id = core.id;
    let dn = m.dispatch_no.load(SeqCst);
    let mut cx = Cx {
        m,
        id,
        dn,
        rng: derive(m.case_seed, &[0x5953, id as u64, dn]),
        sum: [0; NC],
        cnt: [0; NC],
        written: 0,
        read: 0,
        created: None,
    };
    m.runs[id].fetch_add(1, SeqCst);
    m.enter[id].store(m.tick(), SeqCst);
    let inside = m.inside.fetch_add(1, SeqCst) + 1;
    m.max_inside.fetch_max(inside, SeqCst);
    d.enter(&mut cx);
    let entries = m.entries.fetch_add(1, SeqCst) + 1;
    cx.rendezvous(entries, core.tl);
    d.phase1(&mut cx);
    cx.pause();
    d.phase2(&mut cx);
    d.exit(&mut cx);
    m.inside.fetch_sub(1, SeqCst);
    m.values_written.fetch_add(cx.written, SeqCst);
    m.values_read.fetch_add(cx.read, SeqCst);
    m.exit[id].store(m.tick(), SeqCst);
}

type Builder0 = DispatcherBuilder<'static, 'static>;

#[derive(Clone)]
pub struct Combo {
    modes: [u8; NC],
    ent: bool,
    lazy: bool,
    variant: u8,
    add: fn(&mut Builder0, SysCore, &str, &[&str]),
    add_tl: fn(&mut Builder0, SysCore),
    probe: fn(&World) -> Decl,
}

impl Combo {
    fn label(&self) -> String {
        let mut s = String::new();
        for c in 0..NC {
            s.push_str(CNAME[c]);
            s.push(match self.modes[c] {
                0 => '-',
                1 => 'r',
                _ => 'w',
            });
        }
        if self.ent {
            s.push_str("+E");
        }
        if self.lazy {
            s.push_str("+L");
        }
        if self.variant != 0 {
            s.push_str(&format!("/bare{}", self.variant));
        }
        s
    }
    fn code(&self) -> u64 {
        let mut k = self.variant as u64;
        for c in 0..NC {
            k = k * 3 + self.modes[c] as u64;
        }
        k * 4 + self.ent as u64 + 2 * self.lazy as u64
    }
}

fn add_sys<S: Shape>(b: &mut Builder0, core: SysCore, name: &str, deps: &[&str]) {
    b.add(Sys::<S> { core, _p: PhantomData }, name, deps);
}
fn add_tl<S: Shape>(b: &mut Builder0, core: SysCore) {
    b.add_thread_local(Sys::<S> { core, _p: PhantomData });
}
fn probe_shape<S: Shape>(w: &World) -> Decl {
    probe_data::<S::Data<'_>>(w, S::NAME)
}
fn combo<S: Shape>() -> Combo {
    Combo {
        modes: S::MODES,
        ent: S::ENT,
        lazy: S::LAZY,
        variant: S::VARIANT,
        add: add_sys::<S>,
        add_tl: add_tl::<S>,
        probe: probe_shape::<S>,
    }
}

macro_rules! shapes {
    // cartesian product over the components; `$mode` is `items` (emit the
    // `Shape` impls, module level) or `(push v)` (emit the registry entries)
    (@c $mode:tt [$($m:tt)*] [$($ty:tt)*] [$c:ident $($rest:ident)*]) => {
        shapes!(@c $mode [$($m)* 0,] [$($ty)*] [$($rest)*]);
        shapes!(@c $mode [$($m)* 1,] [$($ty)* ReadStorage<'a, $c>,] [$($rest)*]);
        shapes!(@c $mode [$($m)* 2,] [$($ty)* WriteStorage<'a, $c>,] [$($rest)*]);
    };
    (@c $mode:tt [$($m:tt)*] [$($ty:tt)*] []) => {
        shapes!(@emit $mode [$($m)*] false, false, [$($ty)*]);
        shapes!(@emit $mode [$($m)*] true, false, [$($ty)* Entities<'a>,]);
        shapes!(@emit $mode [$($m)*] false, true, [$($ty)* Read<'a, LazyUpdate>,]);
        shapes!(@emit $mode [$($m)*] true, true, [$($ty)* Entities<'a>, Read<'a, LazyUpdate>,]);
    };
    (@emit items [$($m:tt)*] $e:tt, $l:tt, [$($ty:tt)*]) => {
        impl Shape for Mk<$($m)* $e, $l> {
            type Data<'a> = ($($ty)*);
            const MODES: [u8; NC] = [$($m)*];
            const ENT: bool = $e;
            const LAZY: bool = $l;
            const VARIANT: u8 = 0;
            const NAME: &'static str = stringify!(($($ty)*));
        }
    };
    (@emit (push $v:ident) [$($m:tt)*] $e:tt, $l:tt, [$($ty:tt)*]) => {
        $v.push(combo::<Mk<$($m)* $e, $l>>());
    };
}

macro_rules! bare {
    ($k:expr, [$($m:expr),*], $e:expr, $l:expr, $ty:ty) => {
        impl Shape for Bare<$k> {
            type Data<'a> = $ty;
            const MODES: [u8; NC] = [$($m),*];
            const ENT: bool = $e;
            const LAZY: bool = $l;
            const VARIANT: u8 = $k;
            const NAME: &'static str = stringify!($ty);
        }
    };
}

shapes!(@c items [] [] [A B C D]);
bare!(1, [1, 0, 0, 0], false, false, ReadStorage<'a, A>);
bare!(2, [0, 2, 0, 0], false, false, WriteStorage<'a, B>);
bare!(3, [0, 0, 0, 0], true, false, Entities<'a>);
bare!(4, [0, 0, 0, 0], false, true, Read<'a, LazyUpdate>);
bare!(5, [0, 0, 0, 2], false, false, WriteStorage<'a, D>);
bare!(6, [1, 2, 0, 0], true, false, ((ReadStorage<'a, A>, WriteStorage<'a, B>), Entities<'a>));
bare!(7, [0, 0, 2, 1], false, true, (WriteStorage<'a, C>, (ReadStorage<'a, D>, (Read<'a, LazyUpdate>,))));

/// All generated system shapes: 3^4 * 4 tuples + hand-written bare / nested ones.
fn registry() -> Vec<Combo> {
    let mut v: Vec<Combo> = Vec::new();
    shapes!(@c (push v) [] [] [A B C D]);
    v.push(combo::<Bare<1>>());
    v.push(combo::<Bare<2>>());
    v.push(combo::<Bare<3>>());
    v.push(combo::<Bare<4>>());
    v.push(combo::<Bare<5>>());
    v.push(combo::<Bare<6>>());
    v.push(combo::<Bare<7>>());
    v
}

// ---------------------------------------------------------------------------
// declaration monitor
// ---------------------------------------------------------------------------

const NONE: u8 = 0;
const SHARED: u8 = 1;
const EXCL: u8 = 2;
const MISSING: u8 = 3;
const UNKNOWN: u8 = 4;
const NCAND: usize = 8;
const CAND: [&str; NCAND] = [
    "EntitiesRes",
    "MaskedStorage<A>",
    "MaskedStorage<B>",
    "MaskedStorage<C>",
    "MaskedStorage<D>",
    "LazyUpdate",
    "MaskedStorage<T0>",
    "MaskedStorage<Z1>",
];

fn cand_ids() -> [ResourceId; NCAND] {
    [
        ResourceId::new::<EntitiesRes>(),
        ResourceId::new::<MaskedStorage<A>>(),
        ResourceId::new::<MaskedStorage<B>>(),
        ResourceId::new::<MaskedStorage<C>>(),
        ResourceId::new::<MaskedStorage<D>>(),
        ResourceId::new::<LazyUpdate>(),
        ResourceId::new::<MaskedStorage<T0>>(),
        ResourceId::new::<MaskedStorage<Z1>>(),
    ]
}

fn state_name(s: u8) -> &'static str {
    match s {
        NONE => "not borrowed",
        SHARED => "borrowed shared",
        EXCL => "borrowed exclusively",
        MISSING => "missing",
        _ => "undecided",
    }
}

pub struct Decl {
    name: String,
    before: [u8; NCAND],
    held: [u8; NCAND],
    after: [u8; NCAND],
    reads: Vec<ResourceId>,
    writes: Vec<ResourceId>,
    probes: u64,
    /// borrows taken (and released again) *inside* fetch() that the declaration does not cover
    transient: Vec<String>,
}

fn panic_text(e: &Box<dyn std::any::Any + Send>) -> String {
    if let Some(s) = e.downcast_ref::<String>() {
        s.clone()
    } else if let Some(s) = e.downcast_ref::<&str>() {
        s.to_string()
    } else {
        "<non-string panic>".to_string()
    }
}

/// Borrow state of resource `R` as seen from outside: shred's `try_fetch*`
/// panic ("already (im)mutably borrowed") when the borrow conflicts.
fn classify<R: Resource>(w: &World, probes: &mut u64) -> u8 {
    *probes += 1;
    match catch_unwind(AssertUnwindSafe(|| w.try_fetch::<R>().is_some())) {
        Err(e) => {
            if panic_text(&e).contains("already mutably borrowed") {
                EXCL
            } else {
                UNKNOWN
            }
        }
        Ok(false) => MISSING,
        Ok(true) => {
            *probes += 1;
            match catch_unwind(AssertUnwindSafe(|| w.try_fetch_mut::<R>().is_some())) {
                Ok(_) => NONE,
                Err(e) => {
                    if panic_text(&e).contains("already immutably borrowed") {
                        SHARED
                    } else {
                        UNKNOWN
                    }
                }
            }
        }
    }
}

fn classify_all(w: &World, probes: &mut u64) -> [u8; NCAND] {
    [
        classify::<EntitiesRes>(w, probes),
        classify::<MaskedStorage<A>>(w, probes),
        classify::<MaskedStorage<B>>(w, probes),
        classify::<MaskedStorage<C>>(w, probes),
        classify::<MaskedStorage<D>>(w, probes),
        classify::<LazyUpdate>(w, probes),
        classify::<MaskedStorage<T0>>(w, probes),
        classify::<MaskedStorage<Z1>>(w, probes),
    ]
}

/// `stringify!` output without the token spacing
fn tidy(name: &str) -> String {
    let s: String = name.chars().filter(|c| *c != ' ').collect();
    s.replace(',', ", ").replace(", )", ",)")
}

fn probe_data<'a, T: SystemData<'a>>(w: &'a World, name: &'static str) -> Decl {
    let mut probes = 0;
    let before = classify_all(w, &mut probes);
    let value = T::fetch(w);
    let held = classify_all(w, &mut probes);
    drop(value);
    let after = classify_all(w, &mut probes);
    // Interference probe: while somebody else holds a resource the handle does not declare
    // (exclusively), or one it declares as a read (shared), fetch() must still succeed. This also sees
    // borrows that fetch() takes only briefly, e.g. of the storage registry.
    let reads = T::reads();
    let writes = T::writes();
    let mut transient = Vec::new();
    macro_rules! hold_and_fetch {
        ($r:ty, $label:expr) => {{
            let id = ResourceId::new::<$r>();
            if w.has_value::<$r>() {
                if !reads.contains(&id) && !writes.contains(&id) {
                    let g = w.fetch_mut::<$r>();
                    probes += 1;
                    if let Err(e) = catch_unwind(AssertUnwindSafe(|| drop(T::fetch(w)))) {
                        transient.push(format!("fetch() touches {} although it declares neither a read nor a write of it ({})", $label, panic_text(&e)));
                    }
                    drop(g);
                } else if reads.contains(&id) && !writes.contains(&id) {
                    let g = w.fetch::<$r>();
                    probes += 1;
                    if let Err(e) = catch_unwind(AssertUnwindSafe(|| drop(T::fetch(w)))) {
                        transient.push(format!("fetch() needs {} exclusively although it only declares a read of it ({})", $label, panic_text(&e)));
                    }
                    drop(g);
                }
            }
        }};
    }
    hold_and_fetch!(EntitiesRes, "EntitiesRes");
    hold_and_fetch!(MaskedStorage<A>, "MaskedStorage<A>");
    hold_and_fetch!(MaskedStorage<B>, "MaskedStorage<B>");
    hold_and_fetch!(MaskedStorage<C>, "MaskedStorage<C>");
    hold_and_fetch!(MaskedStorage<D>, "MaskedStorage<D>");
    hold_and_fetch!(LazyUpdate, "LazyUpdate");
    hold_and_fetch!(MaskedStorage<T0>, "MaskedStorage<T0>");
    hold_and_fetch!(MaskedStorage<Z1>, "MaskedStorage<Z1>");
    hold_and_fetch!(specs::shred::MetaTable<dyn specs::storage::AnyStorage>, "the storage registry MetaTable<dyn AnyStorage>");
    Decl { name: tidy(name), before, held, after, reads, writes, probes, transient }
}

macro_rules! probe_fn {
    ($t:ty) => {{
        fn p<'a>(w: &'a World) -> Decl {
            probe_data::<$t>(w, stringify!($t))
        }
        p as fn(&World) -> Decl
    }};
}

fn single_probes() -> Vec<fn(&World) -> Decl> {
    vec![
        probe_fn!(ReadStorage<'a, A>),
        probe_fn!(ReadStorage<'a, B>),
        probe_fn!(ReadStorage<'a, C>),
        probe_fn!(ReadStorage<'a, D>),
        probe_fn!(WriteStorage<'a, A>),
        probe_fn!(WriteStorage<'a, B>),
        probe_fn!(WriteStorage<'a, C>),
        probe_fn!(WriteStorage<'a, D>),
        probe_fn!(Entities<'a>),
        probe_fn!(Read<'a, LazyUpdate>),
        probe_fn!((ReadStorage<'a, A>, ReadStorage<'a, A>)),
        // zero-sized components: a tag in a NullStorage and a unit struct in a VecStorage
        probe_fn!(ReadStorage<'a, T0>),
        probe_fn!(WriteStorage<'a, T0>),
        probe_fn!(ReadStorage<'a, Z1>),
        probe_fn!(WriteStorage<'a, Z1>),
        probe_fn!((ReadStorage<'a, T0>, WriteStorage<'a, Z1>, Entities<'a>)),
        probe_fn!((WriteStorage<'a, C>, Entities<'a>, ReadStorage<'a, B>)),
    ]
}

fn with_quiet_panics<R>(f: impl FnOnce() -> R) -> R {
    let prev = std::panic::take_hook();
    std::panic::set_hook(Box::new(|_| {}));
    let r = catch_unwind(AssertUnwindSafe(f));
    std::panic::set_hook(prev);
    match r {
        Ok(v) => v,
        Err(e) => std::panic::resume_unwind(e),
    }
}

enum DeclVerdict {
    Ok,
    Mismatch(String),
    Undecided(String),
}

fn id_names(ids: &[ResourceId], cands: &[ResourceId; NCAND]) -> Vec<String> {
    ids.iter()
        .map(|id| match cands.iter().position(|c| c == id) {
            Some(k) => CAND[k].to_string(),
            None => format!("{:?}", id),
        })
        .collect()
}

fn judge_decl(d: &Decl) -> DeclVerdict {
    let cands = cand_ids();
    if let Some(t) = d.transient.first() {
        return DeclVerdict::Mismatch(format!("{}: {}", d.name, t));
    }
    let decl_txt = format!(
        "reads()={:?} writes()={:?}",
        id_names(&d.reads, &cands),
        id_names(&d.writes, &cands)
    );
    for k in 0..NCAND {
        if d.before[k] != NONE {
            return DeclVerdict::Undecided(format!(
                "declaration probe of {}: {} was {} before fetch()",
                d.name,
                CAND[k],
                state_name(d.before[k])
            ));
        }
        if d.held[k] == UNKNOWN || d.held[k] == MISSING {
            return DeclVerdict::Undecided(format!(
                "declaration probe of {}: state of {} is {}",
                d.name,
                CAND[k],
                state_name(d.held[k])
            ));
        }
    }
    for id in d.reads.iter().chain(d.writes.iter()) {
        if !cands.contains(id) {
            return DeclVerdict::Undecided(format!(
                "declaration probe of {}: declares a resource outside the probed set: {:?}",
                d.name, id
            ));
        }
    }
    for k in 0..NCAND {
        let expect = if d.writes.contains(&cands[k]) {
            EXCL
        } else if d.reads.contains(&cands[k]) {
            SHARED
        } else {
            NONE
        };
        if d.held[k] != expect {
            return DeclVerdict::Mismatch(format!(
                "{}: after fetch() the resource {} is {} but the declaration says it should be {} ({})",
                d.name,
                CAND[k],
                state_name(d.held[k]),
                state_name(expect),
                decl_txt
            ));
        }
    }
    for k in 0..NCAND {
        if d.after[k] != NONE {
            return DeclVerdict::Undecided(format!(
                "declaration probe of {}: {} still {} after the value was dropped",
                d.name,
                CAND[k],
                state_name(d.after[k])
            ));
        }
    }
    DeclVerdict::Ok
}

// ---------------------------------------------------------------------------
// graph generation
// ---------------------------------------------------------------------------

struct SysSpec {
    combo: usize,
    name: String,
    deps: Vec<usize>,
    seg: usize,
    tl: bool,
    tl_first: bool,
    rt: u8,
}

struct Graph {
    sys: Vec<SysSpec>, // parallel systems first (in insertion order), then thread-local ones
    n_par: usize,
    barrier_before: Vec<bool>, // per parallel system: a barrier is added right before it
    pool: usize,
}

fn conflicts(a: &Combo, b: &Combo) -> bool {
    (0..NC).any(|c| (a.modes[c] == 2 && b.modes[c] != 0) || (b.modes[c] == 2 && a.modes[c] != 0))
}

fn pick_combo(rng: &mut Rng, reg: &[Combo], index: &BTreeMap<u64, usize>, profile: usize) -> usize {
    if rng.chance(1, 12) {
        // hand-written bare / nested shapes live at the end of the registry
        let nb = reg.iter().filter(|c| c.variant != 0).count();
        return reg.len() - nb + rng.below(nb);
    }
    let w: [u32; 3] = match profile {
        0 => [55, 27, 18], // sparse: much parallelism
        1 => [34, 33, 33], // uniform
        2 => [20, 50, 30], // read-heavy
        _ => [30, 15, 55], // write-heavy: long chains
    };
    let mut k = 0u64;
    for _ in 0..NC {
        k = k * 3 + rng.weighted(&w) as u64;
    }
    let e = rng.chance(1, 3) as u64;
    let l = rng.chance(1, 4) as u64;
    index[&(k * 4 + e + 2 * l)]
}

fn gen_graph(rng: &mut Rng, reg: &[Combo], index: &BTreeMap<u64, usize>, max_sys: usize) -> Graph {
    let n_par = if rng.chance(1, 4) { rng.range(2, max_sys.min(6)) } else { rng.range(2, max_sys) };
    let n_tl = rng.weighted(&[60, 25, 15]);
    let n_bar = rng.weighted(&[50, 30, 20]);
    let profile = rng.weighted(&[45, 25, 15, 15]);
    let dep_pct = *rng.pick(&[0u32, 10, 25, 50]);
    // 0: all default, 1: uniform over the five classes, 2: mostly very short
    // with a few very long ones (this is what makes shred build long groups)
    let rt_mode = rng.weighted(&[35, 35, 30]);
    let mut barrier_before = vec![false; n_par];
    for _ in 0..n_bar {
        // position 0 is allowed: a barrier before any system must be harmless
        barrier_before[rng.below(n_par)] = true;
    }
    let mut sys = Vec::new();
    let mut seg = 0;
    for i in 0..n_par {
        if barrier_before[i] {
            seg += 1;
        }
        let combo = pick_combo(rng, reg, index, profile);
        let name = if rng.chance(1, 10) { String::new() } else { format!("s{}", i) };
        let mut deps = Vec::new();
        if i > 0 && rng.chance(dep_pct, 100) {
            let nd = rng.weighted(&[0, 60, 30, 10]);
            for _ in 0..nd {
                let j = rng.below(i);
                let named = !sys.get(j).map(|s: &SysSpec| s.name.is_empty()).unwrap_or(true);
                if named && !deps.contains(&j) {
                    deps.push(j);
                }
            }
        }
        let rt = match rt_mode {
            0 => 3,
            1 => rng.range(1, 5) as u8,
            _ => {
                if rng.chance(1, 4) {
                    5
                } else {
                    1
                }
            }
        };
        sys.push(SysSpec { combo, name, deps, seg, tl: false, tl_first: false, rt });
    }
    for t in 0..n_tl {
        let combo = pick_combo(rng, reg, index, profile);
        sys.push(SysSpec {
            combo,
            name: format!("tl{}", t),
            deps: Vec::new(),
            seg: usize::MAX,
            tl: true,
            tl_first: rng.chance(1, 2),
            rt: 3,
        });
    }
    Graph { sys, n_par, barrier_before, pool: *rng.pick(&POOLS) }
}

fn get_pool(pools: &mut BTreeMap<usize, Arc<ThreadPool>>, n: usize) -> Result<Arc<ThreadPool>, String> {
    if let Some(p) = pools.get(&n) {
        return Ok(p.clone());
    }
    let p = ThreadPoolBuilder::new()
        .num_threads(n)
        .thread_name(move |i| format!("c11-pool{}-{}", n, i))
        .build()
        .map_err(|e| format!("cannot build a rayon pool of {} threads: {}", n, e))?;
    let p = Arc::new(p);
    pools.insert(n, p.clone());
    Ok(p)
}


// ---------------------------------------------------------------------------
// spawner storm: co-staged systems that share `Entities` and allocate in tight loops
// ---------------------------------------------------------------------------

/// What one spawner did in its last run.
#[derive(Default)]
struct StormSlot {
    runs: AtomicU64,
    out: Mutex<Vec<Entity>>,
}

struct StormShared {
    slots: Vec<StormSlot>,
    per_run: AtomicU64,
    inside: AtomicU64,
    max_inside: AtomicU64,
    /// spawners that have finished their run in the current frame
    done: AtomicU64,
    /// handles a spawner found dead before the frame's maintain (deferred deletions must stay invisible)
    early_dead: Mutex<Vec<(usize, Entity)>>,
}

/// Co-staged with the spawners (it only reads `EntitiesRes`): deletes, deferred, part of what it joins -
/// including entities the spawners created a moment ago. Nothing of that may be visible to the spawners
/// before the frame's `maintain`.
struct Reaper {
    sh: Arc<StormShared>,
    id: usize,
    nspawn: u64,
}

impl<'a> System<'a> for Reaper {
    type SystemData = Entities<'a>;
    fn run(&mut self, ents: Self::SystemData) {
        let sh = &*self.sh;
        sh.slots[self.id].runs.fetch_add(1, SeqCst);
        let mut mine: Vec<Entity> = Vec::new();
        let mut seen: std::collections::HashSet<Entity> = std::collections::HashSet::new();
        for _pass in 0..200 {
            for e in (&*ents).join() {
                if e.id() % 3 == 0 && seen.insert(e) && ents.delete(e).is_ok() {
                    mine.push(e);
                }
            }
            if sh.done.load(SeqCst) >= self.nspawn {
                break;
            }
            std::thread::yield_now();
        }
        *sh.slots[self.id].out.lock().unwrap_or_else(|e| e.into_inner()) = mine;
    }
}

struct Spawner<const K: usize> {
    sh: Arc<StormShared>,
    id: usize,
}

impl<const K: usize> Spawner<K> {
    fn go(&self, ents: &Entities, lazy: Option<&LazyUpdate>) {
        let sh = &*self.sh;
        let now = sh.inside.fetch_add(1, SeqCst) + 1;
        sh.max_inside.fetch_max(now, SeqCst);
        sh.slots[self.id].runs.fetch_add(1, SeqCst);
        let n = sh.per_run.load(SeqCst) as usize;
        let mut mine = Vec::with_capacity(n);
        match (K + self.id) % 3 {
            0 => {
                for _ in 0..n {
                    mine.push(ents.create());
                }
            }
            1 => mine.extend(ents.create_iter().take(n)),
            _ => match lazy {
                Some(l) => {
                    for _ in 0..n {
                        mine.push(l.create_entity(ents).build());
                    }
                }
                None => {
                    for _ in 0..n {
                        mine.push(ents.create());
                    }
                }
            },
        }
        // a deferred deletion issued meanwhile by a co-staged system takes effect at `maintain`, not now
        for e in &mine {
            if !ents.is_alive(*e) {
                let mut f = sh.early_dead.lock().unwrap_or_else(|e| e.into_inner());
                if f.len() < 8 {
                    f.push((self.id, *e));
                }
            }
        }
        *sh.slots[self.id].out.lock().unwrap_or_else(|e| e.into_inner()) = mine;
        sh.inside.fetch_sub(1, SeqCst);
        sh.done.fetch_add(1, SeqCst);
    }
}

impl<'a> System<'a> for Spawner<0> {
    type SystemData = Entities<'a>;
    fn run(&mut self, e: Self::SystemData) {
        self.go(&e, None)
    }
}
impl<'a> System<'a> for Spawner<1> {
    type SystemData = (Entities<'a>, Read<'a, LazyUpdate>);
    fn run(&mut self, (e, l): Self::SystemData) {
        self.go(&e, Some(&*l))
    }
}
impl<'a> System<'a> for Spawner<2> {
    type SystemData = (ReadStorage<'a, A>, Entities<'a>);
    fn run(&mut self, (_a, e): Self::SystemData) {
        self.go(&e, None)
    }
}

/// Several systems whose declared accesses do not conflict (they read `EntitiesRes`, `LazyUpdate`, a
/// storage) are co-staged and allocate entities in tight loops while the free list runs dry in the
/// middle of the frame. Each frame: no panic, every system exactly once, every handle unique, every
/// handle alive after `maintain`.
fn storm_case(rep: &mut Report, case: u64, pools: &mut BTreeMap<usize, Arc<ThreadPool>>) {
    let mut rng = derive(rep.cfg.seed, &[hash_str("dispatch-storm"), case]);
    let nsys = rng.range(3, 9);
    let threads = *rng.pick(&[4usize, 8, 16]);
    let frames = rng.range(10, 40);
    let mut hist = vec![format!("spawner storm: {} co-staged systems on a pool of {}, {} frames", nsys, threads, frames)];
    trace::push(&hist[0]);
    let pool = match get_pool(pools, threads) {
        Ok(p) => p,
        Err(e) => {
            rep.inconclusive.push(e);
            return;
        }
    };
    let reaper = rng.chance(1, 2);
    let sh = Arc::new(StormShared {
        slots: (0..nsys + reaper as usize).map(|_| StormSlot::default()).collect(),
        per_run: AtomicU64::new(0),
        inside: AtomicU64::new(0),
        max_inside: AtomicU64::new(0),
        done: AtomicU64::new(0),
        early_dead: Mutex::new(Vec::new()),
    });
    let mut b = DispatcherBuilder::new().with_pool(pool);
    for id in 0..nsys {
        let name = format!("spawner{}", id);
        match rng.below(3) {
            0 => b.add(Spawner::<0> { sh: sh.clone(), id }, &name, &[]),
            1 => b.add(Spawner::<1> { sh: sh.clone(), id }, &name, &[]),
            _ => b.add(Spawner::<2> { sh: sh.clone(), id }, &name, &[]),
        }
    }
    if reaper {
        b.add(Reaper { sh: sh.clone(), id: nsys, nspawn: nsys as u64 }, "reaper", &[]);
        hist.push("plus a co-staged reaper (deferred deletions of a third of what it joins)".into());
        rep.bump("storm_cases_with_reaper", 1);
    }
    let mut d = b.build();
    let mut world = World::new();
    d.setup(&mut world);
    rep.cases_run += 1;
    rep.bump("storm_cases", 1);
    let mut live: Vec<Entity> = Vec::new();
    let mut reaped_with_fresh = 0u64;
    for f in 0..frames {
        // free list length ~ a fraction of what the frame will allocate, so it runs dry mid-frame
        let per = rng.range(200, 2000) as u64;
        let demand = per as usize * nsys;
        let want_free = demand * rng.range(1, 8) / 8;
        let fresh: Vec<Entity> = world.create_iter().take(want_free).collect();
        live.extend(fresh);
        rng.shuffle(&mut live);
        let cut = live.len().saturating_sub(want_free);
        let dead: Vec<Entity> = live.split_off(cut);
        if let Err(e) = world.delete_entities(&dead) {
            rep.violation("C11", case, hist.len(), format!("storm frame {}: deleting live entities failed: {:?}", f, e), "C11:storm-setup".into(), &hist);
            return;
        }
        world.maintain();
        sh.per_run.store(per, SeqCst);
        sh.done.store(0, SeqCst);
        let line = format!("frame {}: {} recycled indices, {} systems x {} creations", f, dead.len(), nsys, per);
        trace::push(&line);
        hist.push(line);
        rep.op("storm_dispatch");
        let before: Vec<u64> = sh.slots.iter().map(|s| s.runs.load(SeqCst)).collect();
        let r = catch_unwind(AssertUnwindSafe(|| d.dispatch(&world)));
        rep.bump("dispatches", 1);
        if let Err(e) = r {
            let msg = format!(
                "storm frame {}: a parallel dispatch of systems that only share `Entities` (declared read) panicked: {}",
                f,
                panic_text(&e)
            );
            rep.violation("C11", case, hist.len(), msg, "C11:dispatch-panic".into(), &hist);
            return;
        }
        if let Some((i, e)) = sh.early_dead.lock().unwrap_or_else(|e| e.into_inner()).first().cloned() {
            let msg = format!(
                "storm frame {}: system #{} created {:?} and found it dead before the frame's maintain: a deferred deletion by a co-staged system (which only reads `Entities`) became visible inside the dispatch",
                f, i, e
            );
            rep.violation("C11", case, hist.len(), msg, "C11:storm-deferred-delete-visible".into(), &hist);
            return;
        }
        let reaped: std::collections::HashSet<Entity> = if reaper {
            let runs = sh.slots[nsys].runs.load(SeqCst);
            if runs != before[nsys] + 1 {
                let msg = format!("storm frame {}: the reaper ran {} times instead of exactly once", f, runs - before[nsys]);
                rep.violation("C11", case, hist.len(), msg, "C11:not-exactly-once".into(), &hist);
                return;
            }
            std::mem::take(&mut *sh.slots[nsys].out.lock().unwrap_or_else(|e| e.into_inner())).into_iter().collect()
        } else {
            Default::default()
        };
        rep.bump("storm_deferred_deletions_by_reaper", reaped.len() as u64);
        let mut seen: std::collections::HashSet<Entity> = std::collections::HashSet::with_capacity(demand);
        for (i, s) in sh.slots.iter().enumerate().take(nsys) {
            let runs = s.runs.load(SeqCst);
            if runs != before[i] + 1 {
                let msg = format!("storm frame {}: system #{} ran {} times instead of exactly once", f, i, runs - before[i]);
                rep.violation("C11", case, hist.len(), msg, "C11:not-exactly-once".into(), &hist);
                return;
            }
            let out = std::mem::take(&mut *s.out.lock().unwrap_or_else(|e| e.into_inner()));
            if out.len() != per as usize {
                let msg = format!("storm frame {}: system #{} obtained {} entities instead of {}", f, i, out.len(), per);
                rep.violation("C11", case, hist.len(), msg, "C11:storm-count".into(), &hist);
                return;
            }
            for e in out {
                if !seen.insert(e) {
                    let msg = format!("storm frame {}: {:?} was handed to two co-staged systems (second: #{})", f, e, i);
                    rep.violation("C11", case, hist.len(), msg, "C11:storm-duplicate-entity".into(), &hist);
                    return;
                }
            }
        }
        if let Some(e) = live.iter().find(|e| seen.contains(e)) {
            let msg = format!("storm frame {}: {:?} was handed out although it is still alive", f, e);
            rep.violation("C11", case, hist.len(), msg, "C11:storm-duplicate-entity".into(), &hist);
            return;
        }
        world.maintain();
        {
            let ents = world.entities();
            if let Some(e) = seen.iter().find(|e| ents.is_alive(**e) == reaped.contains(*e)) {
                let msg = format!(
                    "storm frame {}: {:?} created inside the dispatch is {} after maintain although the reaper {} it",
                    f,
                    e,
                    if ents.is_alive(*e) { "alive" } else { "dead" },
                    if reaped.contains(e) { "deleted" } else { "did not delete" }
                );
                rep.violation("C11", case, hist.len(), msg, "C11:storm-lost-entity".into(), &hist);
                return;
            }
            if let Some(e) = live.iter().find(|e| ents.is_alive(**e) == reaped.contains(*e)) {
                let msg = format!("storm frame {}: older entity {:?}: aliveness after maintain does not match the reaper's deletions", f, e);
                rep.violation("C11", case, hist.len(), msg, "C11:storm-lost-entity".into(), &hist);
                return;
            }
        }
        seen.retain(|e| !reaped.contains(e));
        live.retain(|e| !reaped.contains(e));
        reaped_with_fresh += reaped.len() as u64;
        rep.bump("storm_entities_created", seen.len() as u64);
        rep.max("max_storm_concurrent_spawners", sh.max_inside.load(SeqCst));
        live.extend(seen);
        // keep the world bounded
        if live.len() > 40_000 {
            let dead: Vec<Entity> = live.split_off(5_000);
            let _ = world.delete_entities(&dead);
            world.maintain();
        }
    }
    rep.max("max_storm_reaped_in_one_case", reaped_with_fresh);
    if sh.max_inside.load(SeqCst) >= 2 {
        rep.bump("storm_cases_with_overlap", 1);
        rep.distinct(derive(0, &[hash_str("storm"), nsys as u64, threads as u64, sh.max_inside.load(SeqCst)]).next());
    }
}


// ---------------------------------------------------------------------------
// zero-sized components: readers and writers of tag storages, co-staged
// ---------------------------------------------------------------------------

/// A tag in a `NullStorage`.
#[derive(Clone, Copy, Debug, Default, PartialEq, Eq)]
pub struct T0;
impl Component for T0 {
    type Storage = NullStorage<Self>;
}
/// A unit struct kept in an ordinary `VecStorage`.
#[derive(Clone, Copy, Debug, Default, PartialEq, Eq)]
pub struct Z1;
impl Component for Z1 {
    type Storage = VecStorage<Self>;
}

trait TagKind: Component + Default + Send + Sync {
    const I: usize;
}
impl TagKind for T0 {
    const I: usize = 0;
}
impl TagKind for Z1 {
    const I: usize = 1;
}
const TAGNAME: [&str; 2] = ["T0 (NullStorage)", "Z1 (unit struct in a VecStorage)"];

struct TagShared {
    readers: [AtomicU64; 2],
    writers: [AtomicU64; 2],
    inside: AtomicU64,
    max_inside: AtomicU64,
    entries: AtomicU64,
    spin: u64,
    ents: Vec<Entity>,
    runs: Vec<AtomicU64>,
    faults: Mutex<Vec<(&'static str, String)>>,
}

impl TagShared {
    fn fault(&self, sig: &'static str, msg: String) {
        let mut f = self.faults.lock().unwrap_or_else(|e| e.into_inner());
        if f.len() < MAX_FAULTS {
            f.push((sig, msg));
        }
    }
    /// bounded wait (iterations, not time) for another system to enter while this one holds its data
    fn rendezvous(&self) {
        let inside = self.inside.fetch_add(1, SeqCst) + 1;
        self.max_inside.fetch_max(inside, SeqCst);
        let mine = self.entries.fetch_add(1, SeqCst) + 1;
        for _ in 0..self.spin {
            if self.entries.load(SeqCst) > mine {
                break;
            }
            std::thread::yield_now();
        }
        self.max_inside.fetch_max(self.inside.load(SeqCst), SeqCst);
        self.inside.fetch_sub(1, SeqCst);
    }
}

struct TagR<T> {
    sh: Arc<TagShared>,
    id: usize,
    _p: PhantomData<fn() -> T>,
}
struct TagW<T> {
    sh: Arc<TagShared>,
    id: usize,
    _p: PhantomData<fn() -> T>,
}

impl<'a, T: TagKind> System<'a> for TagR<T> {
    type SystemData = ReadStorage<'a, T>;
    fn run(&mut self, s: Self::SystemData) {
        let sh = &*self.sh;
        sh.runs[self.id].fetch_add(1, SeqCst);
        sh.readers[T::I].fetch_add(1, SeqCst);
        let w = sh.writers[T::I].load(SeqCst);
        if w != 0 {
            sh.fault("C11:reader-overlaps-writer", format!("system t{} entered holding ReadStorage<{}> while {} writer(s) of that storage were running", self.id, TAGNAME[T::I], w));
        }
        let before: Vec<bool> = sh.ents.iter().map(|e| s.contains(*e)).collect();
        let n1 = s.count();
        sh.rendezvous();
        let after: Vec<bool> = sh.ents.iter().map(|e| s.contains(*e)).collect();
        if before != after || n1 != s.count() {
            sh.fault("C11:reader-saw-change", format!("system t{} looked at storage {} twice while holding ReadStorage and saw different memberships", self.id, TAGNAME[T::I]));
        }
        let w = sh.writers[T::I].load(SeqCst);
        sh.readers[T::I].fetch_sub(1, SeqCst);
        if w != 0 {
            sh.fault("C11:reader-overlaps-writer", format!("system t{} still held ReadStorage<{}> when {} writer(s) of that storage were running", self.id, TAGNAME[T::I], w));
        }
    }
}

impl<'a, T: TagKind> System<'a> for TagW<T> {
    type SystemData = WriteStorage<'a, T>;
    fn run(&mut self, mut s: Self::SystemData) {
        let sh = &*self.sh;
        sh.runs[self.id].fetch_add(1, SeqCst);
        let w = sh.writers[T::I].fetch_add(1, SeqCst);
        let r = sh.readers[T::I].load(SeqCst);
        if w != 0 || r != 0 {
            sh.fault("C11:writer-overlaps", format!("system t{} entered holding WriteStorage<{}> while {} other writer(s) and {} reader(s) of that storage were running", self.id, TAGNAME[T::I], w, r));
        }
        // flip the membership of every entity once
        let mut mine = Vec::with_capacity(sh.ents.len());
        for e in &sh.ents {
            if s.contains(*e) {
                s.remove(*e);
                mine.push(false);
            } else {
                let _ = s.insert(*e, T::default());
                mine.push(true);
            }
        }
        sh.rendezvous();
        let now: Vec<bool> = sh.ents.iter().map(|e| s.contains(*e)).collect();
        if now != mine {
            sh.fault("C11:writer-saw-change", format!("system t{} holding WriteStorage<{}> found memberships it had not written", self.id, TAGNAME[T::I]));
        }
        let r = sh.readers[T::I].load(SeqCst);
        let w = sh.writers[T::I].fetch_sub(1, SeqCst);
        if w != 1 || r != 0 {
            sh.fault("C11:writer-overlaps", format!("system t{} still held WriteStorage<{}> when {} other writer(s) and {} reader(s) of that storage were running", self.id, TAGNAME[T::I], w - 1, r));
        }
    }
}

/// Readers and writers of zero-sized components without any declared order between them: the writers
/// must be kept apart from everything else that touches the same storage, the dispatch must not fail
/// with a borrow conflict, every system runs once, and every flip of a writer is kept.
fn tag_case(rep: &mut Report, case: u64, pools: &mut BTreeMap<usize, Arc<ThreadPool>>) {
    let mut rng = derive(rep.cfg.seed, &[hash_str("dispatch-tags"), case]);
    trace::set_ctx("C11");
    trace::set_domain(&["C11"]);
    let nsys = rng.range(2, 8);
    let threads = *rng.pick(&[2usize, 3, 4, 8, 16]);
    let frames = rng.range(4, 16);
    let pool = match get_pool(pools, threads) {
        Ok(p) => p,
        Err(e) => {
            rep.inconclusive.push(e);
            return;
        }
    };
    let mut world = World::new();
    let early = rng.chance(1, 2);
    if early {
        world.register::<T0>();
        world.register::<Z1>();
    }
    let ents: Vec<Entity> = (0..rng.range(1, 130)).map(|_| world.create_entity().build()).collect();
    let sh = Arc::new(TagShared {
        readers: [AtomicU64::new(0), AtomicU64::new(0)],
        writers: [AtomicU64::new(0), AtomicU64::new(0)],
        inside: AtomicU64::new(0),
        max_inside: AtomicU64::new(0),
        entries: AtomicU64::new(0),
        spin: rep.cfg.extra_u64("spin", 400) * 4,
        ents: ents.clone(),
        runs: atomics(nsys),
        faults: Mutex::new(Vec::new()),
    });
    let mut b = DispatcherBuilder::new().with_pool(pool);
    let mut hist = vec![format!("tag graph: {} systems on a pool of {}, {} dispatches, {} entities (storages registered before the dispatcher's setup: {})", nsys, threads, frames, ents.len(), early)];
    let mut nw = [0u64; 2];
    let mut kinds: Vec<(usize, bool)> = Vec::new();
    // at least one writer and one other accessor of the same tag
    let focus = rng.below(2);
    for id in 0..nsys {
        let (t, w) = match id {
            0 => (focus, true),
            1 => (focus, rng.chance(1, 3)),
            _ => (rng.below(2), rng.chance(1, 3)),
        };
        kinds.push((t, w));
    }
    rng.shuffle(&mut kinds);
    for (id, (t, w)) in kinds.iter().enumerate() {
        let name = format!("t{}", id);
        // a declared order between some pairs, none between most
        let deps: Vec<String> = if id > 0 && rng.chance(1, 6) { vec![format!("t{}", rng.below(id))] } else { vec![] };
        let dep_refs: Vec<&str> = deps.iter().map(|d| d.as_str()).collect();
        match (*t, *w) {
            (0, false) => b.add(TagR::<T0> { sh: sh.clone(), id, _p: PhantomData }, &name, &dep_refs),
            (0, true) => b.add(TagW::<T0> { sh: sh.clone(), id, _p: PhantomData }, &name, &dep_refs),
            (_, false) => b.add(TagR::<Z1> { sh: sh.clone(), id, _p: PhantomData }, &name, &dep_refs),
            (_, true) => b.add(TagW::<Z1> { sh: sh.clone(), id, _p: PhantomData }, &name, &dep_refs),
        }
        if *w {
            nw[*t] += 1;
        }
        hist.push(format!("t{}: {}Storage<{}> after {:?}", id, if *w { "Write" } else { "Read" }, TAGNAME[*t], deps));
    }
    for l in &hist {
        trace::push(l);
    }
    let mut d = b.build();
    d.setup(&mut world);
    // a tag no system of this graph holds is registered by hand (registering twice is a no-op)
    world.register::<T0>();
    world.register::<Z1>();
    let mut member: [Vec<bool>; 2] = [vec![false; ents.len()], vec![false; ents.len()]];
    {
        let (mut s0, mut s1) = (world.write_storage::<T0>(), world.write_storage::<Z1>());
        for (k, e) in ents.iter().enumerate() {
            if rng.chance(1, 2) {
                let _ = s0.insert(*e, T0);
                member[0][k] = true;
            }
            if rng.chance(1, 2) {
                let _ = s1.insert(*e, Z1);
                member[1][k] = true;
            }
        }
    }
    rep.cases_run += 1;
    rep.bump("tag_cases", 1);
    for f in 0..frames {
        let line = format!("dispatch {}", f);
        trace::push(&line);
        hist.push(line);
        rep.op("tag_dispatch");
        let before: Vec<u64> = sh.runs.iter().map(|r| r.load(SeqCst)).collect();
        let r = with_quiet_panics(|| catch_unwind(AssertUnwindSafe(|| d.dispatch(&world))));
        rep.bump("dispatches", 1);
        if let Err(e) = r {
            let msg = format!(
                "dispatch {} of readers and writers of zero-sized components panicked (a borrow conflict means two accessors of one storage were scheduled together): {}",
                f,
                panic_text(&e)
            );
            rep.violation("C11", case, hist.len(), msg, "C11:dispatch-panic".into(), &hist);
            return;
        }
        let faults = std::mem::take(&mut *sh.faults.lock().unwrap_or_else(|e| e.into_inner()));
        if let Some((sig, msg)) = faults.into_iter().next() {
            rep.violation("C11", case, hist.len(), format!("dispatch {}: {}", f, msg), sig.into(), &hist);
            return;
        }
        for (i, r) in sh.runs.iter().enumerate() {
            let runs = r.load(SeqCst);
            if runs != before[i] + 1 {
                let msg = format!("dispatch {}: system t{} ran {} times instead of exactly once", f, i, runs - before[i]);
                rep.violation("C11", case, hist.len(), msg, "C11:not-exactly-once".into(), &hist);
                return;
            }
        }
        for t in 0..2 {
            if nw[t] % 2 == 1 {
                for m in member[t].iter_mut() {
                    *m = !*m;
                }
            }
        }
        let (s0, s1) = (world.read_storage::<T0>(), world.read_storage::<Z1>());
        let got: [Vec<bool>; 2] = [ents.iter().map(|e| s0.contains(*e)).collect(), ents.iter().map(|e| s1.contains(*e)).collect()];
        for t in 0..2 {
            if got[t] != member[t] {
                let msg = format!("dispatch {}: after {} writer(s) each flipped every membership of {} once, the storage does not hold the expected memberships (a flip was lost or doubled)", f, nw[t], TAGNAME[t]);
                rep.violation("C11", case, hist.len(), msg, "C11:tag-write-lost".into(), &hist);
                return;
            }
        }
    }
    let mi = sh.max_inside.load(SeqCst);
    rep.max("max_tag_systems_inside_together", mi);
    if mi >= 2 {
        rep.bump("tag_cases_with_overlap", 1);
    }
    rep.distinct(derive(0, &[hash_str("tags"), nsys as u64, threads as u64, mi, nw[0], nw[1]]).next());
}

// ---------------------------------------------------------------------------
// driver
// ---------------------------------------------------------------------------

#[derive(Clone, Copy, PartialEq, Eq, Debug)]
enum Kind {
    Full,
    ParThenLocal,
    SeqThenLocal,
}

struct Env<'e> {
    reg: &'e [Combo],
    index: &'e BTreeMap<u64, usize>,
    singles: &'e [fn(&World) -> Decl],
    max_sys: usize,
    spin: u64,
    decl: bool,
    par: bool,
}

/// Feed the overlap monitor hand-made bad histories (a handle whose `exit` is
/// withheld, a value overwritten behind a handle's back) plus a clean one and
/// require the expected reports. A monitor that cannot see an overlap would
/// make every "held" verdict of this engine worthless, so a failure is
/// recorded as inconclusive.
fn monitor_selftest(rep: &mut Report) {
    fn cx<'m>(m: &'m Monitor, id: usize) -> Cx<'m> {
        Cx { m, id, dn: 0, rng: Rng(id as u64), sum: [0; NC], cnt: [0; NC], written: 0, read: 0, created: None }
    }
    let mut world = World::new();
    world.register::<A>();
    world.register::<C>();
    let ents: Vec<Entity> = (0..6u64)
        .map(|k| world.create_entity().with(A(enc(k))).with(C(enc(k))).build())
        .collect();
    let fresh = || Monitor::new(1, 1, 0, 3, ents.clone());
    let mut passed = 0u64;
    let mut expect = |name: &str, m: &Monitor, want: Option<&str>| {
        let got = m.take_faults();
        let ok = match want {
            None => got.is_empty(),
            Some(sig) => got.first().map(|f| f.0) == Some(sig),
        };
        if ok {
            passed += 1;
        } else {
            rep.inconclusive.push(format!(
                "overlap monitor self-test '{}' expected {:?}, monitor reported {:?}",
                name, want, got
            ));
        }
    };
    // clean: reader in/out, then writer in/out, then two readers together
    {
        let m = fresh();
        let (mut c0, mut c1) = (cx(&m, 0), cx(&m, 1));
        {
            let mut r: ReadStorage<A> = world.system_data();
            r.enter(&mut c0);
            r.phase1(&mut c0);
            r.phase2(&mut c0);
            r.exit(&mut c0);
        }
        {
            let mut w: WriteStorage<A> = world.system_data();
            w.enter(&mut c1);
            w.phase1(&mut c1);
            w.phase2(&mut c1);
            w.exit(&mut c1);
        }
        {
            let (r0, r1): (ReadStorage<A>, ReadStorage<A>) = world.system_data();
            r0.enter(&mut c0);
            r1.enter(&mut c1);
            r0.exit(&mut c0);
            r1.exit(&mut c1);
        }
        expect("clean", &m, None);
    }
    // reader still inside when a writer enters
    {
        let m = fresh();
        let (mut c0, mut c1) = (cx(&m, 0), cx(&m, 1));
        {
            let r: ReadStorage<C> = world.system_data();
            r.enter(&mut c0);
        }
        let w: WriteStorage<C> = world.system_data();
        w.enter(&mut c1);
        expect("reader inside, writer enters", &m, Some("C11:writer-overlaps"));
    }
    // writer still inside when a reader enters
    {
        let m = fresh();
        let (mut c0, mut c1) = (cx(&m, 0), cx(&m, 1));
        {
            let w: WriteStorage<C> = world.system_data();
            w.enter(&mut c0);
        }
        let r: ReadStorage<C> = world.system_data();
        r.enter(&mut c1);
        expect("writer inside, reader enters", &m, Some("C11:reader-overlaps-writer"));
    }
    // writer still inside when a second writer enters
    {
        let m = fresh();
        let (mut c0, mut c1) = (cx(&m, 0), cx(&m, 1));
        let w: WriteStorage<A> = world.system_data();
        w.enter(&mut c0);
        w.enter(&mut c1);
        expect("two writers", &m, Some("C11:writer-overlaps"));
    }
    // a writer arrives while a reader is leaving late
    {
        let m = fresh();
        let (mut c0, mut c1) = (cx(&m, 0), cx(&m, 1));
        {
            let r: ReadStorage<A> = world.system_data();
            r.enter(&mut c0);
        }
        m.writers[0].fetch_add(1, SeqCst);
        let _ = m.take_faults();
        {
            let r: ReadStorage<A> = world.system_data();
            r.exit(&mut c0);
        }
        let _ = &mut c1;
        expect("reader leaves while a writer is inside", &m, Some("C11:reader-overlaps-writer"));
    }
    // values overwritten between a writer's two phases
    {
        let m = fresh();
        let (mut c0, mut c1) = (cx(&m, 0), cx(&m, 1));
        let mut w: WriteStorage<C> = world.system_data();
        w.phase1(&mut c0);
        w.phase1(&mut c1);
        w.phase2(&mut c0);
        expect("foreign token", &m, Some("C11:writer-lost-its-token"));
    }
    // values changed between a reader's two reads
    {
        let m = fresh();
        let (mut c0, mut c1) = (cx(&m, 0), cx(&m, 2));
        {
            let mut r: ReadStorage<A> = world.system_data();
            r.phase1(&mut c0);
        }
        {
            let mut w: WriteStorage<A> = world.system_data();
            w.phase1(&mut c1);
        }
        let mut r: ReadStorage<A> = world.system_data();
        r.phase2(&mut c0);
        expect("changed under a reader", &m, Some("C11:reader-saw-change"));
    }
    // a torn value
    {
        let m = fresh();
        let mut c0 = cx(&m, 0);
        {
            let mut w: WriteStorage<A> = world.system_data();
            if let Some(v) = w.get_mut(ents[2]) {
                v.0[1] ^= 0x10;
            }
        }
        let mut r: ReadStorage<A> = world.system_data();
        r.phase1(&mut c0);
        expect("torn value", &m, Some("C11:reader-saw-torn-value"));
    }
    rep.bump("monitor_selftest_scenarios_passed", passed);
}

pub fn run(rep: &mut Report) {
    let reg = registry();
    let mut index = BTreeMap::new();
    for (i, c) in reg.iter().enumerate() {
        if c.variant == 0 {
            index.insert(c.code(), i);
        }
    }
    let singles = single_probes();
    let max_sys = rep.cfg.ops.clamp(2, 24);
    let env = Env {
        reg: &reg,
        index: &index,
        singles: &singles,
        max_sys,
        spin: rep.cfg.extra_u64("spin", 400),
        decl: rep.cfg.extra_u64("decl", 1) != 0,
        par: rep.cfg.extra_u64("par", 1) != 0,
    };
    let mut pools: BTreeMap<usize, Arc<ThreadPool>> = BTreeMap::new();
    rep.max("shapes_available", reg.len() as u64);
    monitor_selftest(rep);
    for case in rep.cfg.my_cases() {
        if rep.full() {
            break;
        }
        if env.par && !cfg!(miri) && case % 40 == 39 {
            crate::report::guarded(rep, case, |rep| storm_case(rep, case, &mut pools));
            continue;
        }
        if env.par && !cfg!(miri) && case % 20 == 9 {
            crate::report::guarded(rep, case, |rep| tag_case(rep, case, &mut pools));
            continue;
        }
        crate::report::guarded(rep, case, |rep| run_case(rep, case, &env, &mut pools));
    }
}

fn describe(g: &Graph, reg: &[Combo]) -> Vec<String> {
    let mut h = vec![format!("pool threads={}", g.pool)];
    for s in g.sys.iter().filter(|s| s.tl && s.tl_first) {
        h.push(format!("add_thread_local {} data={}", s.name, reg[s.combo].label()));
    }
    for (i, s) in g.sys.iter().enumerate().take(g.n_par) {
        if g.barrier_before[i] {
            h.push("add_barrier".to_string());
        }
        let deps: Vec<String> = s.deps.iter().map(|d| format!("s{}", d)).collect();
        h.push(format!(
            "add #{} name={:?} data={} running_time={} deps={:?}",
            i,
            s.name,
            reg[s.combo].label(),
            s.rt,
            deps
        ));
    }
    for s in g.sys.iter().filter(|s| s.tl && !s.tl_first) {
        h.push(format!("add_thread_local {} data={}", s.name, reg[s.combo].label()));
    }
    h
}

fn run_case(rep: &mut Report, case: u64, env: &Env, pools: &mut BTreeMap<usize, Arc<ThreadPool>>) {
    let seed = rep.cfg.seed;
    let mut rng = derive(seed, &[hash_str("dispatch"), case]);
    trace::set_ctx("C11");
    trace::set_domain(&["C11"]);
    let reg = env.reg;
    let g = gen_graph(&mut rng, reg, env.index, env.max_sys);
    let mut hist = describe(&g, reg);
    for l in &hist {
        trace::push(l);
    }
    let nsys = g.sys.len();

    // world with the plain entities first (the systems refer to them)
    let mut world = World::new();
    let n_ent = rng.range(5, 40);
    let initial: Vec<Entity> = (0..n_ent).map(|_| world.create_entity().build()).collect();
    let case_seed = derive(seed, &[hash_str("dispatch-sys"), case]).next();
    let mon = Arc::new(Monitor::new(case_seed, g.pool, env.spin, nsys, initial.clone()));
    if rng.chance(1, 12) {
        // spawner graph: a long free list to start with, and bursts of creations in every system
        // that holds `Entities` (they are co-staged: `Entities` is only ever a shared read)
        let junk: Vec<Entity> = world.create_iter().take(rng.range(500, 3000)).collect();
        world.delete_entities(&junk).expect("junk deletion");
        mon.burst.store(true, SeqCst);
    }

    let pool = match get_pool(pools, g.pool) {
        Ok(p) => p,
        Err(e) => {
            rep.inconclusive.push(e);
            return;
        }
    };
    let mut b: Builder0 = DispatcherBuilder::new().with_pool(pool);
    let core = |id: usize, tl: bool| SysCore { mon: mon.clone(), id, tl, rt: g.sys[id].rt };
    for (id, s) in g.sys.iter().enumerate().filter(|(_, s)| s.tl && s.tl_first) {
        (reg[s.combo].add_tl)(&mut b, core(id, true));
    }
    for id in 0..g.n_par {
        let s = &g.sys[id];
        if g.barrier_before[id] {
            b.add_barrier();
        }
        let dep_names: Vec<String> = s.deps.iter().map(|d| g.sys[*d].name.clone()).collect();
        let dep_refs: Vec<&str> = dep_names.iter().map(|d| d.as_str()).collect();
        (reg[s.combo].add)(&mut b, core(id, false), &s.name, &dep_refs);
    }
    for (id, s) in g.sys.iter().enumerate().filter(|(_, s)| s.tl && !s.tl_first) {
        (reg[s.combo].add_tl)(&mut b, core(id, true));
    }
    let mut dispatcher = b.build();

    // storages: through the dispatcher's setup, the rest by registration
    let reg_first = rng.chance(1, 3);
    if reg_first {
        world.register::<A>();
        world.register::<C>();
    }
    // D's storage has no default value: it is registered up front and every setup has to leave it alone
    world.register_with_storage::<_, D>(|| NoDefaultStorage::with_tag(7));
    dispatcher.setup(&mut world);
    world.register::<A>();
    world.register::<B>();
    world.register::<C>();
    world.register::<T0>();
    world.register::<Z1>();
    if rng.chance(1, 4) {
        // a second setup of storage handles on the complete world is a no-op
        world.setup::<(ReadStorage<D>, WriteStorage<D>, ReadStorage<A>)>();
        world.exec(|(d, _e): (ReadStorage<D>, Entities)| {
            let _ = d.count();
        });
    }
    hist.push(format!("setup (A, C registered before: {}); {} entities", reg_first, n_ent));
    trace::push(hist.last().unwrap());
    {
        let (mut sa, mut sb, mut sc, mut sd) = (
            world.write_storage::<A>(),
            world.write_storage::<B>(),
            world.write_storage::<C>(),
            world.write_storage::<D>(),
        );
        for (k, e) in initial.iter().enumerate() {
            let t = (1u64 << 60) | ((k as u64) << 8);
            let bits = rng.below(16);
            if bits & 1 != 0 {
                let _ = sa.insert(*e, A(enc(t)));
            }
            if bits & 2 != 0 {
                let _ = sb.insert(*e, B(enc(t | 1)));
            }
            if bits & 4 != 0 {
                let _ = sc.insert(*e, C(enc(t | 2)));
            }
            if bits & 8 != 0 {
                let _ = sd.insert(*e, D(enc(t | 3)));
            }
        }
    }
    rep.cases_run += 1;
    rep.bump("graphs", 1);
    rep.bump("systems_in_graphs", nsys as u64);
    rep.max("max_systems_in_graph", nsys as u64);
    rep.bump(&format!("pool_{}", g.pool), 1);
    if g.barrier_before.iter().any(|b| *b) {
        rep.bump("graphs_with_barrier", 1);
    }
    if nsys > g.n_par {
        rep.bump("graphs_with_thread_local", 1);
    }
    let n_deps: usize = g.sys.iter().map(|s| s.deps.len()).sum();
    rep.bump("dependency_edges", n_deps as u64);

    // static conflict pairs
    let mut conflict_pairs: Vec<(usize, usize)> = Vec::new();
    for i in 0..nsys {
        for j in i + 1..nsys {
            if conflicts(&reg[g.sys[i].combo], &reg[g.sys[j].combo]) {
                conflict_pairs.push((i, j));
            }
        }
    }

    // (iv) declaration monitor on this world
    if env.decl {
        let mut todo: Vec<fn(&World) -> Decl> = Vec::new();
        todo.push(env.singles[rng.below(env.singles.len())]);
        todo.push(env.singles[rng.below(env.singles.len())]);
        for _ in 0..3 {
            let s = &g.sys[rng.below(nsys)];
            todo.push(reg[s.combo].probe);
        }
        let decls: Vec<Decl> = with_quiet_panics(|| todo.iter().map(|p| p(&world)).collect());
        for d in &decls {
            rep.op("declaration_probe");
            rep.bump("declaration_probes", d.probes);
            rep.bump("declarations_checked", 1);
            let line = format!("fetch + probe {}", d.name);
            trace::push(&line);
            hist.push(line);
            match judge_decl(d) {
                DeclVerdict::Ok => {}
                DeclVerdict::Undecided(s) => {
                    if rep.inconclusive.len() < 8 {
                        rep.inconclusive.push(format!("case {}: {}", case, s));
                    }
                }
                DeclVerdict::Mismatch(msg) => {
                    rep.violation("C11", case, hist.len(), msg, "C11:declaration-mismatch".into(), &hist);
                    return;
                }
            }
        }
    }
    if !env.par {
        return;
    }

    // dispatches
    let n_disp = rng.range(3, 10);
    let mut prev_runs = vec![0u64; nsys];
    let mut any_overlap = false;
    for dn in 0..n_disp as u64 {
        let kind = match rng.below(12) {
            0 => Kind::SeqThenLocal,
            1 => Kind::ParThenLocal,
            _ => Kind::Full,
        };
        mon.dispatch_no.store(dn, SeqCst);
        let line = format!("dispatch #{} {:?}", dn, kind);
        trace::push(&line);
        hist.push(line);
        rep.op(match kind {
            Kind::Full => "dispatch",
            Kind::ParThenLocal => "dispatch_par+thread_local",
            Kind::SeqThenLocal => "dispatch_seq+thread_local",
        });
        let start_clock = mon.clock.load(SeqCst);
        let r = catch_unwind(AssertUnwindSafe(|| match kind {
            Kind::Full => dispatcher.dispatch(&world),
            Kind::ParThenLocal => {
                dispatcher.dispatch_par(&world);
                dispatcher.dispatch_thread_local(&world);
            }
            Kind::SeqThenLocal => {
                dispatcher.dispatch_seq(&world);
                dispatcher.dispatch_thread_local(&world);
            }
        }));
        rep.bump("dispatches", 1);
        let faults = mon.take_faults();
        if let Err(e) = r {
            let mut msg = format!("dispatch #{} ({:?}) panicked: {}", dn, kind, panic_text(&e));
            if let Some((_, f)) = faults.first() {
                msg.push_str(&format!("; the overlap monitor had recorded: {}", f));
            }
            rep.violation("C11", case, hist.len(), msg, "C11:dispatch-panic".into(), &hist);
            return;
        }
        if let Some((sig, f)) = faults.first() {
            let msg = format!("{} ({} monitor report(s) in this dispatch)", f, faults.len());
            rep.violation("C11", case, hist.len(), msg, sig.to_string(), &hist);
            return;
        }
        // (ii) exactly once
        let mut enter = vec![0u64; nsys];
        let mut exit = vec![0u64; nsys];
        for i in 0..nsys {
            let cur = mon.runs[i].load(SeqCst);
            if cur != prev_runs[i] + 1 {
                let msg = format!(
                    "dispatch #{} ({:?}): system #{} {:?} [{}] ran {} times instead of exactly once",
                    dn,
                    kind,
                    i,
                    g.sys[i].name,
                    reg[g.sys[i].combo].label(),
                    cur.wrapping_sub(prev_runs[i])
                );
                rep.violation("C11", case, hist.len(), msg, "C11:exactly-once".into(), &hist);
                return;
            }
            prev_runs[i] = cur;
            enter[i] = mon.enter[i].load(SeqCst);
            exit[i] = mon.exit[i].load(SeqCst);
            if !(start_clock < enter[i] && enter[i] < exit[i]) {
                rep.inconclusive.push(format!(
                    "case {}: stamps of system #{} out of order ({} {} {})",
                    case, i, start_clock, enter[i], exit[i]
                ));
                return;
            }
        }
        rep.bump("systems_run", nsys as u64);
        // declared dependencies
        for i in 0..g.n_par {
            for &d in &g.sys[i].deps {
                rep.bump("dependency_edges_checked", 1);
                if !(exit[d] < enter[i]) {
                    let msg = format!(
                        "dispatch #{} ({:?}): system #{} depends on #{} but entered at logical time {} before its dependency left at {}",
                        dn, kind, i, d, enter[i], exit[d]
                    );
                    rep.violation("C11", case, hist.len(), msg, "C11:dependency-order".into(), &hist);
                    return;
                }
            }
        }
        // barriers: everything before a barrier has left before anything after it enters
        let nseg = g.sys[..g.n_par].iter().map(|s| s.seg).max().unwrap_or(0) + 1;
        if nseg > 1 {
            let mut max_exit = vec![0u64; nseg];
            let mut min_enter = vec![u64::MAX; nseg];
            let mut last_out = vec![0usize; nseg];
            let mut first_in = vec![0usize; nseg];
            for i in 0..g.n_par {
                let s = g.sys[i].seg;
                if exit[i] > max_exit[s] {
                    max_exit[s] = exit[i];
                    last_out[s] = i;
                }
                if enter[i] < min_enter[s] {
                    min_enter[s] = enter[i];
                    first_in[s] = i;
                }
            }
            let mut before = 0u64;
            let mut before_sys = 0usize;
            for s in 0..nseg {
                if min_enter[s] != u64::MAX {
                    rep.bump("barrier_checks", 1);
                    if s > 0 && !(before < min_enter[s]) {
                        let msg = format!(
                            "dispatch #{} ({:?}): system #{} (added after barrier {}) entered at logical time {} although system #{} (added before that barrier) left only at {}",
                            dn, kind, first_in[s], s, min_enter[s], before_sys, before
                        );
                        rep.violation("C11", case, hist.len(), msg, "C11:barrier-order".into(), &hist);
                        return;
                    }
                }
                if max_exit[s] > before {
                    before = max_exit[s];
                    before_sys = last_out[s];
                }
            }
        }
        // thread-local systems run after all others
        let last_par_exit = (0..g.n_par).map(|i| exit[i]).max().unwrap_or(0);
        for i in g.n_par..nsys {
            rep.bump("thread_local_checks", 1);
            if !(last_par_exit < enter[i]) {
                let msg = format!(
                    "dispatch #{} ({:?}): thread-local system #{} entered at logical time {} before the last other system left at {}",
                    dn, kind, i, enter[i], last_par_exit
                );
                rep.violation("C11", case, hist.len(), msg, "C11:thread-local-order".into(), &hist);
                return;
            }
        }
        // conflict pairs must be disjoint in logical time
        for &(i, j) in &conflict_pairs {
            rep.bump("conflict_pairs_checked", 1);
            if enter[i] < exit[j] && enter[j] < exit[i] {
                let msg = format!(
                    "dispatch #{} ({:?}): systems #{} [{}] and #{} [{}] share a storage one of them writes and overlapped: [{}, {}] and [{}, {}] in logical time",
                    dn,
                    kind,
                    i,
                    reg[g.sys[i].combo].label(),
                    j,
                    reg[g.sys[j].combo].label(),
                    enter[i],
                    exit[i],
                    enter[j],
                    exit[j]
                );
                rep.violation("C11", case, hist.len(), msg, "C11:conflict-pair-overlap".into(), &hist);
                return;
            }
        }
        // evidence: who really overlapped
        let mut ov = 0u64;
        for i in 0..nsys {
            for j in i + 1..nsys {
                if enter[i] < exit[j] && enter[j] < exit[i] {
                    ov += 1;
                }
            }
        }
        if ov > 0 {
            any_overlap = true;
            rep.bump("dispatches_with_overlap", 1);
            rep.bump("overlapping_pairs", ov);
        }
        // maintain between dispatches (deferred creations, deletions, lazy queue)
        trace::push("maintain");
        hist.push("maintain".into());
        rep.op("maintain");
        world.maintain();
    }
    rep.max("max_systems_inside_at_once", mon.max_inside.load(SeqCst));
    rep.bump("values_written", mon.values_written.load(SeqCst));
    rep.bump("values_read", mon.values_read.load(SeqCst));
    rep.bump("structural_changes_in_systems", mon.structural.load(SeqCst));
    rep.bump("entities_created_in_systems", mon.ent_created.load(SeqCst));
    rep.bump("entities_deleted_in_systems", mon.ent_deleted.load(SeqCst));
    rep.bump("lazy_updates_queued", mon.lazy_queued.load(SeqCst));
    if !conflict_pairs.is_empty() {
        rep.bump("graphs_with_conflict_pair", 1);
    }
    if any_overlap {
        rep.bump("graphs_with_overlap", 1);
    }
    if !conflict_pairs.is_empty() && any_overlap {
        let mut sig = Sig::default();
        sig.push(g.pool as u64);
        for (i, s) in g.sys.iter().enumerate() {
            sig.push(reg[s.combo].code());
            sig.push(s.tl as u64 * 2 + g.barrier_before.get(i).map(|b| *b as u64).unwrap_or(0));
            for d in &s.deps {
                sig.push(1000 + *d as u64);
            }
        }
        rep.distinct(sig.0);
        rep.sample(json!({
            "case": case,
            "graph": hist.iter().take(nsys + 4).collect::<Vec<_>>(),
            "dispatches": n_disp,
            "conflict_pairs": conflict_pairs.len(),
            "max_systems_inside_at_once": mon.max_inside.load(SeqCst),
        }));
    }
    drop(dispatcher);
    drop(world);
}
