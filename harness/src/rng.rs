//! SplitMix64: tiny, deterministic, identical under native / Miri / sanitizer builds.

#[derive(Clone, Debug)]
pub struct Rng(pub u64);

pub fn mix(mut z: u64) -> u64 {
    z = z.wrapping_add(0x9E37_79B9_7F4A_7C15);
    z = (z ^ (z >> 30)).wrapping_mul(0xBF58_476D_1CE4_E5B9);
    z = (z ^ (z >> 27)).wrapping_mul(0x94D0_49BB_1331_11EB);
    z ^ (z >> 31)
}

/// Derive an independent stream from a root seed and a list of labels.
pub fn derive(root: u64, labels: &[u64]) -> Rng {
    let mut s = mix(root ^ 0xA5A5_5A5A_DEAD_BEEF);
    for &l in labels {
        s = mix(s ^ mix(l));
    }
    Rng(s)
}

pub fn hash_str(s: &str) -> u64 {
    let mut h = 0xcbf2_9ce4_8422_2325u64;
    for b in s.bytes() {
        h ^= b as u64;
        h = h.wrapping_mul(0x1000_0000_01b3);
    }
    mix(h)
}

impl Rng {
    pub fn next(&mut self) -> u64 {
        self.0 = self.0.wrapping_add(0x9E37_79B9_7F4A_7C15);
        let mut z = self.0;
        z = (z ^ (z >> 30)).wrapping_mul(0xBF58_476D_1CE4_E5B9);
        z = (z ^ (z >> 27)).wrapping_mul(0x94D0_49BB_1331_11EB);
        z ^ (z >> 31)
    }
    /// uniform in 0..n (n > 0)
    pub fn below(&mut self, n: usize) -> usize {
        debug_assert!(n > 0);
        (self.next() % (n as u64)) as usize
    }
    pub fn range(&mut self, lo: usize, hi_incl: usize) -> usize {
        lo + self.below(hi_incl - lo + 1)
    }
    /// true with probability num/den
    pub fn chance(&mut self, num: u32, den: u32) -> bool {
        (self.next() % den as u64) < num as u64
    }
    pub fn pick<'a, T>(&mut self, xs: &'a [T]) -> &'a T {
        &xs[self.below(xs.len())]
    }
    /// weighted choice: returns index into weights
    pub fn weighted(&mut self, weights: &[u32]) -> usize {
        let total: u64 = weights.iter().map(|&w| w as u64).sum();
        let mut r = self.next() % total.max(1);
        for (i, &w) in weights.iter().enumerate() {
            if r < w as u64 {
                return i;
            }
            r -= w as u64;
        }
        weights.len() - 1
    }
    pub fn shuffle<T>(&mut self, xs: &mut [T]) {
        for i in (1..xs.len()).rev() {
            let j = self.below(i + 1);
            xs.swap(i, j);
        }
    }
}

/// Order-sensitive incremental hash used for "distinct history" signatures.
#[derive(Clone, Copy, Debug, Default)]
pub struct Sig(pub u64);
impl Sig {
    pub fn push(&mut self, x: u64) {
        self.0 = mix(self.0 ^ mix(x.wrapping_add(0x51ED)));
    }
}
