//! Engine `det` (C20): the same single-threaded operation history must produce
//! the same transcript (handles, results, join orders, event streams,
//! serialised bytes) in two worlds driven in lock-step, in a world driven while
//! unrelated worlds are mutated in between and on another thread, and - via
//! the transcript hashes written to the result file - in other processes
//! (different hash seeds, address layout, optimisation level).

use std::collections::BTreeMap;

use serde::{Deserialize, Serialize};
use specs::prelude::*;
use specs::saveload::{
    ConvertSaveload, DeserializeComponents, MarkedBuilder, Marker, SerializeComponents, SimpleMarker, SimpleMarkerAllocator,
    UuidMarker, UuidMarkerAllocator,
};
use specs::ConvertSaveload;
use specs::storage::{BTreeStorage, ComponentEvent, DenseVecStorage, FlaggedStorage, HashMapStorage, VecStorage};
use specs::{Builder, ReaderId};

use crate::model::Fail;
use crate::report::{trace, Report};
use crate::rng::{derive, hash_str, mix, Rng};

#[derive(Clone, Debug, PartialEq, serde::Serialize, serde::Deserialize)]
pub struct H(pub u64);
impl Component for H {
    type Storage = HashMapStorage<Self>;
}
#[derive(Clone, Debug, PartialEq, serde::Serialize, serde::Deserialize)]
pub struct V(pub u64);
impl Component for V {
    type Storage = VecStorage<Self>;
}
#[derive(Clone, Debug, PartialEq, serde::Serialize, serde::Deserialize)]
pub struct B(pub String);
impl Component for B {
    type Storage = BTreeStorage<Self>;
}
#[derive(Clone, Debug, PartialEq)]
pub struct F(pub u64);
impl Component for F {
    type Storage = FlaggedStorage<Self, DenseVecStorage<Self>>;
}
/// A component holding references to other entities (serialised through the marker mapping).
#[derive(ConvertSaveload, Clone, Debug, PartialEq)]
pub struct Link {
    pub to: Entity,
    pub also: Entity,
    pub w: u32,
}
impl Component for Link {
    type Storage = VecStorage<Self>;
}
/// Only used in *unrelated* worlds: its destructor panics while armed.
pub struct Boom(pub bool);
impl Component for Boom {
    type Storage = VecStorage<Self>;
}
impl Drop for Boom {
    fn drop(&mut self) {
        if self.0 && !std::thread::panicking() {
            self.0 = false;
            panic!("verif: injected destructor panic in an unrelated world");
        }
    }
}
pub struct Net;
type M = SimpleMarker<Net>;

struct W {
    world: World,
    handles: Vec<Entity>,
    reader: ReaderId<ComponentEvent>,
    out: Vec<String>,
    bufs: Vec<String>,
    serialised_entities: u64,
    hash_joins: u64,
    recursive_serialisations: u64,
    uuid_loads: u64,
}

fn new_world() -> W {
    let mut world = World::new();
    world.register::<H>();
    world.register::<V>();
    world.register::<B>();
    world.register::<F>();
    world.register::<Link>();
    world.register::<Boom>();
    world.register::<M>();
    world.insert(SimpleMarkerAllocator::<Net>::new());
    world.register::<UuidMarker>();
    world.insert(UuidMarkerAllocator::new());
    let reader = world.write_storage::<F>().register_reader();
    W { world, handles: Vec::new(), reader, out: Vec::new(), bufs: Vec::new(), serialised_entities: 0, hash_joins: 0, recursive_serialisations: 0, uuid_loads: 0 }
}

/// One operation, fully determined by (code, a, b, c); choices that depend on
/// the world use only the list of handles returned so far.
fn step(w: &mut W, code: usize, a: u64, b: u64, c: u64) {
    let pick = |w: &W, x: u64| -> Option<Entity> {
        if w.handles.is_empty() {
            None
        } else {
            Some(w.handles[(x % w.handles.len() as u64) as usize])
        }
    };
    match code {
        0 => {
            let mut bld = w.world.create_entity();
            if a & 1 != 0 {
                bld = bld.with(H(a));
            }
            if a & 2 != 0 {
                bld = bld.with(V(b));
            }
            if a & 4 != 0 {
                bld = bld.with(B(format!("s{}", c % 97)));
            }
            if a & 8 != 0 {
                bld = bld.with(F(c));
            }
            if a & 16 != 0 {
                bld = bld.marked::<M>();
            }
            let e = bld.build();
            w.handles.push(e);
            w.out.push(format!("create_now -> {:?}", e));
        }
        1 => {
            let e = w.world.entities().create();
            w.handles.push(e);
            if a & 1 != 0 {
                let r = w.world.write_storage::<H>().insert(e, H(b)).is_ok();
                w.out.push(format!("create_atomic -> {:?} insert {}", e, r));
            } else {
                w.out.push(format!("create_atomic -> {:?}", e));
            }
        }
        2 => {
            let e = {
                let ents = w.world.entities();
                let lazy = w.world.read_resource::<LazyUpdate>();
                let mut bld = lazy.create_entity(&ents);
                if a & 1 != 0 {
                    bld = bld.with(H(a));
                }
                if a & 2 != 0 {
                    bld = bld.with(F(b));
                }
                if a & 4 != 0 {
                    bld = bld.marked::<M>();
                }
                bld.build()
            };
            w.handles.push(e);
            w.out.push(format!("lazy_create -> {:?}", e));
        }
        3 => {
            if let Some(e) = pick(w, a) {
                let r = w.world.delete_entity(e);
                w.out.push(format!("delete_now({:?}) -> {:?}", e, r.map_err(|x| x.entity)));
            }
        }
        4 => {
            if let Some(e) = pick(w, a) {
                let r = w.world.entities().delete(e);
                w.out.push(format!("delete_atomic({:?}) -> {:?}", e, r.map_err(|x| x.entity)));
            }
        }
        5 => {
            let list: Vec<Entity> = [a, b, c].iter().filter_map(|x| pick(w, *x)).collect();
            let r = w.world.delete_entities(&list);
            w.out.push(format!("delete_batch({:?}) -> {:?}", list, r.map_err(|(x, i)| (x.entity, i))));
        }
        6 => {
            w.world.maintain();
            w.out.push("maintain".into());
        }
        7 => {
            if let Some(e) = pick(w, a) {
                let r = match b % 4 {
                    0 => format!("{:?}", w.world.write_storage::<H>().insert(e, H(c)).map_err(|_| ())),
                    1 => format!("{:?}", w.world.write_storage::<V>().insert(e, V(c)).map_err(|_| ())),
                    2 => format!("{:?}", w.world.write_storage::<B>().insert(e, B(format!("b{}", c % 13))).map_err(|_| ())),
                    _ => format!("{:?}", w.world.write_storage::<F>().insert(e, F(c)).map_err(|_| ())),
                };
                w.out.push(format!("insert({:?}, {}) -> {}", e, b % 4, r));
            }
        }
        8 => {
            if let Some(e) = pick(w, a) {
                let r = match b % 4 {
                    0 => format!("{:?}", w.world.write_storage::<H>().remove(e)),
                    1 => format!("{:?}", w.world.write_storage::<V>().remove(e)),
                    2 => format!("{:?}", w.world.write_storage::<B>().remove(e)),
                    _ => format!("{:?}", w.world.write_storage::<F>().remove(e)),
                };
                w.out.push(format!("remove({:?}, {}) -> {}", e, b % 4, r));
            }
        }
        9 => {
            // joins, including one over the hash-map storage
            let ents = w.world.entities();
            let h = w.world.read_storage::<H>();
            let v = w.world.read_storage::<V>();
            let bs = w.world.read_storage::<B>();
            let j1: Vec<(Entity, u64)> = (&ents, &h).join().map(|(e, h)| (e, h.0)).collect();
            let j2: Vec<(u64, Option<u64>, bool)> = (&h, (&v).maybe(), !&bs).join().map(|(h, v, _)| (h.0, v.map(|v| v.0), true)).collect();
            let j3: Vec<Entity> = (&ents).join().collect();
            w.hash_joins += 1;
            w.out.push(format!("join1 {:?}", j1));
            w.out.push(format!("join2 {:?}", j2));
            w.out.push(format!("join3 {:?}", j3));
        }
        10 => {
            // mutable join on the tracked storage, then the event stream
            {
                let ents = w.world.entities();
                let mut f = w.world.write_storage::<F>();
                for (e, f) in (&ents, &mut f).join() {
                    if (e.id() as u64 + a) % 3 == 0 {
                        f.0 = f.0.wrapping_add(b);
                    }
                }
            }
            let f = w.world.read_storage::<F>();
            let evs: Vec<ComponentEvent> = f.channel().read(&mut w.reader).cloned().collect();
            w.out.push(format!("events {:?}", evs));
        }
        11 => {
            if let Some(e) = pick(w, a) {
                let r = {
                    let mut alloc = w.world.write_resource::<SimpleMarkerAllocator<Net>>();
                    let mut ms = w.world.write_storage::<M>();
                    use specs::saveload::MarkerAllocator;
                    alloc.mark(e, &mut ms).map(|(m, n)| (format!("{:?}", m), n))
                };
                w.out.push(format!("mark({:?}) -> {:?}", e, r));
            }
        }
        12 => {
            // serialise (JSON or RON)
            let text = {
                let ents = w.world.entities();
                let h = w.world.read_storage::<H>();
                let v = w.world.read_storage::<V>();
                let bs = w.world.read_storage::<B>();
                let ms = w.world.read_storage::<M>();
                w.serialised_entities += (&ents, &ms).join().count() as u64;
                if a % 2 == 0 {
                    let mut buf = Vec::new();
                    let mut ser = serde_json::Serializer::new(&mut buf);
                    SerializeComponents::<std::convert::Infallible, M>::serialize(&(&h, &v, &bs), &ents, &ms, &mut ser).unwrap();
                    String::from_utf8(buf).unwrap()
                } else {
                    let mut buf = Vec::new();
                    let mut ser = ron::ser::Serializer::new(&mut buf, None).unwrap();
                    SerializeComponents::<std::convert::Infallible, M>::serialize(&(&h, &v, &bs), &ents, &ms, &mut ser).unwrap();
                    String::from_utf8(buf).unwrap()
                }
            };
            w.out.push(format!("serialize -> {}", text));
            if a % 2 == 0 {
                w.bufs.push(text);
            }
        }
        13 => {
            // load an earlier JSON buffer back into this world (merge by marker)
            if !w.bufs.is_empty() {
                let text = w.bufs[(a % w.bufs.len() as u64) as usize].clone();
                {
                    let ents = w.world.entities();
                    let h = w.world.write_storage::<H>();
                    let v = w.world.write_storage::<V>();
                    let bs = w.world.write_storage::<B>();
                    let mut ms = w.world.write_storage::<M>();
                    let mut alloc = w.world.write_resource::<SimpleMarkerAllocator<Net>>();
                    let mut de = serde_json::Deserializer::from_str(&text);
                    let r = DeserializeComponents::<specs::error::Error, M>::deserialize(&mut (h, v, bs), &ents, &mut ms, &mut alloc, &mut de);
                    w.out.push(format!("deserialize -> {}", r.is_ok()));
                }
                let created: Vec<Entity> = {
                    let ents = w.world.entities();
                    let ms = w.world.read_storage::<M>();
                    (&ents, &ms).join().map(|(e, _)| e).collect()
                };
                for e in created {
                    if !w.handles.contains(&e) {
                        w.handles.push(e);
                    }
                }
                w.out.push(format!("marked now {:?}", {
                    let ents = w.world.entities();
                    let ms = w.world.read_storage::<M>();
                    (&ents, &ms).join().map(|(e, m)| (e, format!("{:?}", m))).collect::<Vec<_>>()
                }));
            }
        }
        15 => {
            // link two entities (references between entities)
            if let (Some(e), Some(t), Some(u)) = (pick(w, a), pick(w, b), pick(w, c)) {
                let r = w.world.write_storage::<Link>().insert(e, Link { to: t, also: u, w: (a % 50) as u32 }).is_ok();
                w.out.push(format!("link({:?} -> {:?}, {:?}) -> {}", e, t, u, r));
            }
        }
        16 => {
            // recursive serialisation: marks and transfers everything reachable through links.
            // Links whose targets are dead are dropped first (their conversion is undefined).
            {
                let ents = w.world.entities();
                let mut links = w.world.write_storage::<Link>();
                let dangling: Vec<Entity> = (&ents, &links).join().filter(|(_, l)| !ents.is_alive(l.to) || !ents.is_alive(l.also)).map(|(e, _)| e).collect();
                for e in dangling {
                    links.remove(e);
                }
            }
            let text = {
                let ents = w.world.entities();
                let h = w.world.read_storage::<H>();
                let links = w.world.read_storage::<Link>();
                let mut ms = w.world.write_storage::<M>();
                let mut alloc = w.world.write_resource::<SimpleMarkerAllocator<Net>>();
                let mut buf = Vec::new();
                let mut ser = serde_json::Serializer::new(&mut buf);
                SerializeComponents::<std::convert::Infallible, M>::serialize_recursive(&(&h, &links), &ents, &mut ms, &mut alloc, &mut ser).unwrap();
                drop(ser);
                w.serialised_entities += (&ents, &ms).join().count() as u64;
                String::from_utf8(buf).unwrap()
            };
            w.recursive_serialisations += 1;
            w.out.push(format!("serialize_recursive -> {}", text));
        }
        17 => {
            // a marker copied in from elsewhere: inserted directly, bypassing the allocator
            if let Some(e) = pick(w, a) {
                let id = 20 + (b % 60);
                let m: M = serde_json::from_str(&format!("[{}]", id)).expect("marker literal");
                let r = w.world.write_storage::<M>().insert(e, m).map(|o| o.map(|m| format!("{:?}", m))).map_err(|_| ());
                w.out.push(format!("insert_foreign_marker({:?}, {}) -> {:?}", e, id, r));
            }
        }
        18 => {
            use specs::saveload::MarkerAllocator;
            let ents = w.world.entities();
            let ms = w.world.read_storage::<M>();
            let mut alloc = w.world.write_resource::<SimpleMarkerAllocator<Net>>();
            alloc.maintain(&ents, &ms);
            w.out.push("allocator.maintain".into());
        }
        19 => {
            w.world.delete_all();
            w.out.push("delete_all".into());
        }
        20 => {
            // data saved elsewhere with uuid markers (the uuids are part of the data, hence of the
            // history: nothing random is asked of the library) is merged into this world; entities
            // loaded earlier may have been deleted since, with the allocator not maintained
            let n = 1 + (a % 3);
            let recs: Vec<String> = (0..n)
                .map(|k| {
                    let u = (b + k * 7) % 12;
                    format!(
                        "{{\"marker\":{{\"uuid\":\"00000000-0000-4000-8000-0000000000{:02x}\"}},\"components\":[{},{}]}}",
                        u,
                        c + k,
                        if (c + k) % 3 == 0 { "null".to_string() } else { (a + k).to_string() }
                    )
                })
                .collect();
            let text = format!("[{}]", recs.join(","));
            {
                let ents = w.world.entities();
                let h = w.world.write_storage::<H>();
                let v = w.world.write_storage::<V>();
                let mut ms = w.world.write_storage::<UuidMarker>();
                let mut alloc = w.world.write_resource::<UuidMarkerAllocator>();
                let mut de = serde_json::Deserializer::from_str(&text);
                let r = DeserializeComponents::<specs::error::Error, UuidMarker>::deserialize(&mut (h, v), &ents, &mut ms, &mut alloc, &mut de);
                w.out.push(format!("deserialize uuid data {} -> {:?}", text, r.map_err(|e| e.to_string())));
            }
            let marked: Vec<(Entity, String)> = {
                let ents = w.world.entities();
                let ms = w.world.read_storage::<UuidMarker>();
                (&ents, &ms).join().map(|(e, m)| (e, m.uuid().to_string())).collect()
            };
            for (e, _) in &marked {
                if !w.handles.contains(e) {
                    w.handles.push(*e);
                }
            }
            w.out.push(format!("uuid-marked now {:?}", marked));
            let text = {
                let ents = w.world.entities();
                let h = w.world.read_storage::<H>();
                let v = w.world.read_storage::<V>();
                let ms = w.world.read_storage::<UuidMarker>();
                let mut buf = Vec::new();
                let mut ser = serde_json::Serializer::new(&mut buf);
                SerializeComponents::<std::convert::Infallible, UuidMarker>::serialize(&(&h, &v), &ents, &ms, &mut ser).unwrap();
                drop(ser);
                String::from_utf8(buf).unwrap()
            };
            w.uuid_loads += 1;
            w.out.push(format!("serialize by uuid -> {}", text));
        }
        21 => {
            use specs::saveload::MarkerAllocator;
            let ents = w.world.entities();
            let ms = w.world.read_storage::<UuidMarker>();
            let mut alloc = w.world.write_resource::<UuidMarkerAllocator>();
            alloc.maintain(&ents, &ms);
            w.out.push("uuid allocator.maintain".into());
        }
        _ => {
            if let Some(e) = pick(w, a) {
                let ents = w.world.entities();
                let r = (ents.is_alive(e), w.world.read_storage::<H>().get(e).cloned(), w.world.read_storage::<F>().contains(e));
                w.out.push(format!("probe({:?}) -> {:?}", e, r));
            }
        }
    }
}

fn gen_history(rng: &mut Rng, n: usize) -> Vec<(usize, u64, u64, u64)> {
    (0..n)
        .map(|_| {
            let code = rng.weighted(&[16, 8, 6, 8, 5, 4, 7, 10, 5, 7, 6, 6, 5, 3, 4, 9, 4, 4, 3, 1, 5, 1]);
            (code, rng.next() % 1000, rng.next() % 1000, rng.next() % 1000)
        })
        .collect()
}

fn transcript_hash(t: &[String]) -> u64 {
    let mut h = 0x9E37u64;
    for l in t {
        h = mix(h ^ hash_str(l));
    }
    h
}

fn first_diff(a: &[String], b: &[String]) -> String {
    for (i, (x, y)) in a.iter().zip(b.iter()).enumerate() {
        if x != y {
            return format!("line {}: `{}` vs `{}`", i, trunc(x), trunc(y));
        }
    }
    format!("lengths {} vs {}", a.len(), b.len())
}
fn trunc(s: &str) -> String {
    s.chars().take(300).collect()
}

/// Mutate unrelated worlds: a history-independent disturbance.
fn disturb(x: &mut W, seed: u64) {
    let mut r = Rng(seed);
    if r.chance(1, 6) {
        // an unrelated world whose delete_all / maintain unwinds out of a panicking destructor (caught)
        for _ in 0..(r.below(3) + 1) {
            x.world.create_entity().with(Boom(true)).with(H(1)).build();
        }
        let w = &mut x.world;
        let _ = std::panic::catch_unwind(std::panic::AssertUnwindSafe(|| w.delete_all()));
        // disarm whatever is left so that later drops are quiet
        {
            // (also the orphans of entities that are already dead)
            let mut b = x.world.write_storage::<Boom>();
            for boom in (&mut b).join() {
                boom.0 = false;
            }
        }
        x.handles.clear();
    }
    for _ in 0..(r.below(6) + 1) {
        let c = r.below(10);
        step(x, c, r.next() % 1000, r.next() % 1000, r.next() % 1000);
    }
}

fn run_case(rep: &mut Report, case: u64, hashes: &mut BTreeMap<u64, u64>) {
    let cfg = rep.cfg.clone();
    let mut rng = derive(cfg.seed, &[hash_str("det"), case]);
    trace::set_ctx("C20");
    let n = rng.range(cfg.ops / 3 + 1, cfg.ops.max(2));
    let hist = gen_history(&mut rng, n);
    let hist_txt: Vec<String> = hist.iter().map(|h| format!("{:?}", h)).collect();
    // (i) lock-step
    let mut a = new_world();
    let mut b = new_world();
    let mut failure: Option<Fail> = None;
    for (i, (code, x, y, z)) in hist.iter().enumerate() {
        step(&mut a, *code, *x, *y, *z);
        step(&mut b, *code, *x, *y, *z);
        if a.out.len() != b.out.len() || a.out.last() != b.out.last() {
            failure = Some(("C20", format!("two worlds driven in lock-step diverged at operation {} {:?}: {}", i, hist[i], first_diff(&a.out, &b.out))));
            break;
        }
    }
    // (ii) with interference from unrelated worlds, also on another thread
    if failure.is_none() {
        let mut c = new_world();
        let mut other = new_world();
        let seed = rng.next();
        let mut nested = 0u64;
        std::thread::scope(|s| {
            let t = s.spawn(move || {
                let mut far = new_world();
                for k in 0..40 {
                    disturb(&mut far, seed ^ k);
                }
                far.out.len()
            });
            let mut nest = Rng(seed ^ 0x5EED);
            for (i, (code, x, y, z)) in hist.iter().enumerate() {
                disturb(&mut other, seed.wrapping_add(i as u64));
                if nest.chance(1, 4) {
                    // the operation runs while the unrelated world is in the middle of its own maintain
                    // (from inside one of its lazy updates, on this thread)
                    struct Ptr(*mut W);
                    unsafe impl Send for Ptr {}
                    unsafe impl Sync for Ptr {}
                    let p = Ptr(&mut c as *mut W);
                    let (code, x, y, z) = (*code, *x, *y, *z);
                    other.world.read_resource::<LazyUpdate>().exec(move |_| {
                        let p = p;
                        // SAFETY: the closure runs inside the `maintain` call below, while `c` is not
                        // otherwise used
                        let c = unsafe { &mut *p.0 };
                        step(c, code, x, y, z);
                    });
                    other.world.maintain();
                    nested += 1;
                } else {
                    step(&mut c, *code, *x, *y, *z);
                }
            }
            let _ = t.join();
        });
        rep.bump("operations_run_inside_another_worlds_maintain", nested);
        if c.out != a.out {
            failure = Some(("C20", format!("a world driven while unrelated worlds were mutated (in between, on another thread, and with operations run from inside another world's maintain) produced a different transcript: {}", first_diff(&a.out, &c.out))));
        }
    }
    let h = transcript_hash(&a.out);
    hashes.insert(case, h);
    rep.cases_run += 1;
    rep.bump("operations", hist.len() as u64);
    rep.bump("transcript_lines", a.out.len() as u64);
    rep.bump("entities_serialised", a.serialised_entities);
    rep.bump("joins_over_hash_map_storage", a.hash_joins);
    rep.bump("recursive_serialisations", a.recursive_serialisations);
    rep.bump("uuid_marker_loads", a.uuid_loads);
    let nontrivial = a.hash_joins >= 1 && a.serialised_entities >= 3;
    if nontrivial && failure.is_none() {
        rep.distinct(h);
    }
    if nontrivial && rep.samples.len() < 2 {
        rep.sample(serde_json::json!({"case": case, "history": hist_txt.iter().take(20).collect::<Vec<_>>(), "transcript_head": a.out.iter().take(12).map(|s| trunc(s)).collect::<Vec<_>>()}));
    }
    if let Some((p, msg)) = failure {
        rep.violation(p, case, 0, msg, "C20:transcript mismatch".into(), &hist_txt);
    }
}

pub fn run(rep: &mut Report) {
    let mut hashes: BTreeMap<u64, u64> = BTreeMap::new();
    for case in rep.cfg.my_cases() {
        if rep.full() {
            break;
        }
        let h = &mut hashes;
        crate::report::guarded(rep, case, |rep| run_case(rep, case, h));
    }
    // transcript hashes for the cross-process comparison done by the driver
    let doc: BTreeMap<String, String> = hashes.iter().map(|(c, h)| (c.to_string(), format!("{:016x}", h))).collect();
    rep.notes.push(format!("transcripts={}", serde_json::to_string(&doc).unwrap()));
}
