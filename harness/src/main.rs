use sv::report::{Cfg, Report};

fn main() {
    let args: Vec<String> = std::env::args().skip(1).collect();
    let cfg = Cfg::from_args(&args);
    // Keep injected / expected panics quiet unless asked.
    if std::env::var("VERIF_PANIC_VERBOSE").is_err() {
        std::panic::set_hook(Box::new(|info| {
            let s = info.to_string();
            if !s.contains("verif: injected") && !s.contains("Expected index to be less then") {
                eprintln!("panic: {}", s);
            }
        }));
    }
    let mut rep = Report::new(cfg.clone());
    match cfg.engine.as_str() {
        "selftest" => {
            println!("harness ok");
            return;
        }
        "world" => sv::eng_world::run(&mut rep),
        "storage" => sv::eng_storage::run(&mut rep),
        "join" => sv::eng_join::run(&mut rep),
        "changeset" => sv::eng_changeset::run(&mut rep),
        "panicdrop" => sv::eng_panicdrop::run(&mut rep),
        "conc" => sv::eng_conc::run(&mut rep),
        "det" => sv::eng_det::run(&mut rep),
        "parjoin" => sv::eng_join::par::run(&mut rep),
        "saveload" => sv::eng_saveload::run(&mut rep),
        "dispatch" => sv::eng_dispatch::run(&mut rep),
        other => {
            eprintln!("unknown engine {:?}", other);
            std::process::exit(3);
        }
    }
    std::process::exit(rep.finish());
}
