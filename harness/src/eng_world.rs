//! Engine `world`: random histories of entity creation / deletion (all paths),
//! component access through every handle-taking path, lazy updates and
//! maintain, checked step by step against the lifecycle / component / lazy
//! queue models. Serves C01, C02, C03, C05, C08, C09, C17.

use std::collections::{BTreeMap, BTreeSet};
use std::sync::atomic::{AtomicU64, Ordering};
use std::sync::{Arc, Mutex};

use specs::prelude::*;
use specs::Builder;

use crate::comps::{all_drivers, Driver, Out, Path, ALL_PATHS};
use crate::ledger::{self, Snap, ZST_SNAP};
use crate::model::{Action, Fail, Model, Queue, St};
use crate::report::Report;
use crate::rng::{derive, hash_str, Rng, Sig};

type R = Result<(), Fail>;

#[derive(Clone, Debug)]
pub enum SubOp {
    Observe(Entity),
    CreateNow(Vec<(usize, u64)>),
    CreateAtomic,
    DeleteNow(Entity),
    DeleteAtomic(Entity),
    Insert(usize, Entity, u64),
    Remove(usize, Entity),
    LazyInsert(usize, Entity, u64),
    /// lazy insert targeting the entity most recently created by this same action (if any)
    LazyInsertCreated(usize, u64),
    /// direct insert on the entity most recently created by this same action (if any)
    InsertCreated(usize, u64),
    /// LazyUpdate::create_entity(..).with(..).build() from inside the action
    LazyCreate(Vec<(usize, u64)>),
    Enqueue(Script),
    /// the action itself calls world.maintain() (re-entrant): everything queued so far runs now
    Maintain,
}

#[derive(Clone, Debug)]
pub struct Script {
    pub id: u64,
    pub ops: Vec<SubOp>,
    pub mutable: bool,
}

#[derive(Clone, Debug)]
pub enum SubRes {
    Obs { w: bool, e: bool, has: Vec<bool> },
    Created(Entity, Vec<Snap>),
    Ok(bool),
    Out(Out),
    Snap(Snap),
    /// (target, snap) of a lazy insert whose target was only known at run time
    SnapAt(Entity, Snap),
    /// (target, outcome) of a direct insert whose target was only known at run time
    OutAt(Entity, Out),
    Unit,
}

pub struct LogEntry {
    pub id: u64,
    pub maintain_no: u64,
    pub res: Vec<SubRes>,
}

#[derive(Clone)]
pub struct Env {
    pub drivers: Arc<Vec<Box<dyn Driver>>>,
    pub registered: Arc<Mutex<Vec<bool>>>,
    pub log: Arc<Mutex<Vec<LogEntry>>>,
    /// ids of the actions in the order in which they *started* (a re-entrant maintain nests executions)
    pub starts: Arc<Mutex<Vec<u64>>>,
    pub mno: Arc<AtomicU64>,
}

/// Body of a queued closure: runs the scripted sub-operations on the world.
pub fn exec_script(world: &mut World, s: Script, env: Env) {
    env.starts.lock().unwrap().push(s.id);
    let mut res = Vec::new();
    let mut last_created: Option<Entity> = None;
    for op in s.ops {
        match op {
            SubOp::Maintain => {
                world.maintain();
                res.push(SubRes::Unit);
            }
            SubOp::LazyInsertCreated(k, p) => match last_created {
                Some(h) => {
                    let lazy = world.read_resource::<LazyUpdate>();
                    res.push(SubRes::SnapAt(h, env.drivers[k].lazy_insert(&lazy, h, p)));
                }
                None => res.push(SubRes::Unit),
            },
            SubOp::InsertCreated(k, p) => match last_created {
                Some(h) => res.push(SubRes::OutAt(h, env.drivers[k].access(world, h, Path::Insert, p))),
                None => res.push(SubRes::Unit),
            },
            SubOp::LazyCreate(with) => {
                let ents = world.entities();
                let lazy = world.read_resource::<LazyUpdate>();
                let mut b = lazy.create_entity(&ents);
                let mut snaps = Vec::new();
                for (k, p) in with {
                    let (b2, s) = env.drivers[k].lazy_builder_with(b, p);
                    b = b2;
                    snaps.push(s);
                }
                let h = b.build();
                last_created = Some(h);
                res.push(SubRes::Created(h, snaps));
            }
            SubOp::Observe(h) => {
                let w = world.is_alive(h);
                let e = world.entities().is_alive(h);
                let reg = env.registered.lock().unwrap().clone();
                let has = env
                    .drivers
                    .iter()
                    .enumerate()
                    .map(|(k, d)| reg[k] && d.access(world, h, Path::ReadContains, 0) == Out::Bool(true))
                    .collect();
                res.push(SubRes::Obs { w, e, has });
            }
            SubOp::CreateNow(with) => {
                let mut b = world.create_entity();
                let mut snaps = Vec::new();
                for (k, p) in with {
                    let (b2, s) = env.drivers[k].builder_with(b, p);
                    b = b2;
                    snaps.push(s);
                }
                let h = b.build();
                last_created = Some(h);
                res.push(SubRes::Created(h, snaps));
            }
            SubOp::CreateAtomic => {
                let h = world.entities().create();
                last_created = Some(h);
                res.push(SubRes::Created(h, vec![]));
            }
            SubOp::DeleteNow(h) => res.push(SubRes::Ok(world.delete_entity(h).is_ok())),
            SubOp::DeleteAtomic(h) => res.push(SubRes::Ok(world.entities().delete(h).is_ok())),
            SubOp::Insert(k, h, p) => res.push(SubRes::Out(env.drivers[k].access(world, h, Path::Insert, p))),
            SubOp::Remove(k, h) => res.push(SubRes::Out(env.drivers[k].access(world, h, Path::Remove, 0))),
            SubOp::LazyInsert(k, h, p) => {
                let lazy = world.read_resource::<LazyUpdate>();
                res.push(SubRes::Snap(env.drivers[k].lazy_insert(&lazy, h, p)));
            }
            SubOp::Enqueue(child) => {
                let env2 = env.clone();
                let lazy = world.read_resource::<LazyUpdate>();
                if child.mutable {
                    lazy.exec_mut(move |w| exec_script(w, child, env2));
                } else {
                    lazy.exec(move |w| exec_script(w, child, env2));
                }
                res.push(SubRes::Unit);
            }
        }
    }
    env.log.lock().unwrap().push(LogEntry { id: s.id, maintain_no: env.mno.load(Ordering::SeqCst), res });
}

#[derive(Clone, Copy, PartialEq, Eq, Debug)]
enum Hint {
    Any,
    Live,
    Pending,
    Dead,
    StaleOccupied,
    PendingDelete,
    Last,
    NotDead,
}

struct W {
    world: Option<World>,
    env: Env,
    nst: usize,
    model: Model,
    queue: Queue,
    scripts: BTreeMap<u64, Script>,
    next_script: u64,
    next_payload: u64,
    hist: Vec<String>,
    ctx: &'static str,
    rng: Rng,
    last_created: Option<Entity>,
    // coverage
    sig: Sig,
    wrong_gen_deletes: u64,
    failing_batches: u64,
    failing_batches_nonempty_prefix: u64,
    stale_occupied_probes: u64,
    stale_probes_by_path: BTreeMap<Path, u64>,
    nested_enqueues: u64,
    reentrant_maintains: u64,
    pending_starts: std::collections::VecDeque<u64>,
    pending_results: BTreeMap<u64, LogEntry>,
    lazy_on_created_in_action: u64,
    lazy_on_same_frame_reuse: u64,
    lazy_actions_run: u64,
    reg_paths_used: BTreeSet<u8>,
    purged_multi: u64,
    creations_after_failing_batch: u64,
    exits: [u64; 4], // returned, entity deletion, clear, world drop
    checks: u64,
    heavy_every: usize,
    /// the property being checked (decides attribution where two properties cover the same event)
    prop: String,
    /// a foreign divergence has been seen: only divergences of the checked property end the history
    lenient: bool,
}

fn wrong_gen_entity(e: &specs::error::WrongGeneration) -> Entity {
    e.entity
}

impl W {
    fn world(&self) -> &World {
        self.world.as_ref().unwrap()
    }
    fn world_mut(&mut self) -> &mut World {
        self.world.as_mut().unwrap()
    }
    fn payload(&mut self) -> u64 {
        self.next_payload += 1;
        self.next_payload
    }
    fn reg(&self) -> Vec<bool> {
        self.env.registered.lock().unwrap().clone()
    }
    fn registered_storages(&self) -> Vec<usize> {
        self.reg().iter().enumerate().filter(|(_, r)| **r).map(|(k, _)| k).collect()
    }
    fn log(&mut self, s: String) {
        self.sig.push(hash_str(s.split('(').next().unwrap_or("")));
        crate::report::trace::push(&s);
        self.hist.push(s);
    }
    fn set_ctx(&mut self, p: &'static str) {
        self.ctx = p;
        crate::report::trace::set_ctx(p);
    }
    fn domain(&mut self, d: &'static [&'static str]) {
        crate::report::trace::set_domain(d);
    }

    fn pick(&mut self, hint: Hint) -> Option<Entity> {
        let m = &self.model;
        let cands: Vec<Entity> = match hint {
            Hint::Any => m.handles.clone(),
            Hint::Live => m.info.iter().filter(|(_, i)| i.st == St::Live).map(|(h, _)| *h).collect(),
            Hint::Pending => m.info.iter().filter(|(_, i)| i.st == St::Pending).map(|(h, _)| *h).collect(),
            Hint::NotDead => m.occupant.values().cloned().collect(),
            Hint::Dead => m.dead.clone(),
            Hint::StaleOccupied => m.dead.iter().filter(|h| m.occupant.contains_key(&h.id())).cloned().collect(),
            Hint::PendingDelete => m
                .info
                .iter()
                .filter(|(_, i)| i.st != St::Dead && i.pending_delete)
                .map(|(h, _)| *h)
                .collect(),
            Hint::Last => self.last_created.into_iter().collect(),
        };
        if cands.is_empty() {
            None
        } else {
            let i = self.rng.below(cands.len());
            Some(cands[i])
        }
    }

    /// Pick a handle with bias to hostile ones.
    fn pick_mixed(&mut self) -> Option<Entity> {
        let hints = [Hint::Live, Hint::Pending, Hint::Dead, Hint::StaleOccupied, Hint::PendingDelete, Hint::Any, Hint::Last];
        let w = [30, 15, 12, 20, 8, 10, 5];
        for _ in 0..4 {
            let h = hints[self.rng.weighted(&w)];
            if let Some(e) = self.pick(h) {
                return Some(e);
            }
        }
        self.pick(Hint::Any)
    }

    fn with_list(&mut self, max: usize) -> Vec<(usize, u64)> {
        let regs = self.registered_storages();
        let mut out = Vec::new();
        if regs.is_empty() {
            return out;
        }
        let n = self.rng.below(max + 1);
        let mut used = BTreeSet::new();
        for _ in 0..n {
            let k = *self.rng.pick(&regs);
            if used.insert(k) {
                let p = self.payload();
                out.push((k, p));
            }
        }
        out
    }

    // ---- model-side bookkeeping shared by top-level ops and scripts -------

    fn on_created(&mut self, h: Entity, pending: bool) -> R {
        if self.prop == "C03" && self.model.info.contains_key(&h) && !self.model.not_dead(h) {
            // A creation returned a handle equal to one whose entity is dead (C01's oracle reports that).
            // For C03 this means the dead handle now addresses the newer entity: demonstrate it.
            if let Some(k) = self.registered_storages().first().cloned() {
                let p = self.payload();
                let ins = self.env.drivers[k].access(self.world(), h, Path::Insert, p);
                let got = self.env.drivers[k].access(self.world(), h, Path::Get, 0);
                if let (Out::InsOk(..), Out::Found(s)) = (ins, got) {
                    return Err((
                        "C03",
                        format!(
                            "creation returned {:?}, identical to the handle of an entity that was deleted earlier: the dead handle now reads the newer entity's component {:?} in {} (and can modify or remove it)",
                            h,
                            s,
                            self.env.drivers[k].name()
                        ),
                    ));
                }
            }
        }
        self.model.created(h, pending)?;
        self.last_created = Some(h);
        if self.failing_batches_nonempty_prefix > 0 {
            self.creations_after_failing_batch += 1;
        }
        Ok(())
    }

    fn expect_destroyed(&mut self, what: &str, destroyed: &[(usize, Snap)]) -> R {
        let mut storages = BTreeSet::new();
        for (k, s) in destroyed {
            storages.insert(*k);
            if *s != ZST_SNAP && !ledger::is_dropped(s.id) {
                // "destroyed exactly once (by deletion of its entity ...), never leaked" is C08's clause as
                // much as the purge is C05's: attribute to the one being checked
                return Err((
                    if self.prop == "C08" { "C08" } else { "C05" },
                    format!("{}: component value {} in storage {} of a deleted entity was not destroyed", what, s.id, self.env.drivers[*k].name()),
                ));
            }
            self.exits[1] += 1;
        }
        if storages.len() >= 2 {
            self.purged_multi += 1;
        }
        Ok(())
    }

    /// Compare one access outcome with the model's prediction and update the model.
    fn apply_access(&mut self, k: usize, h: Entity, path: Path, p: u64, out: Out) -> R {
        let d = &self.env.drivers[k];
        let alive = self.model.not_dead(h);
        let m = self.model.comps[k].get(&h).cloned();
        let v = crate::access::judge(d.name(), d.is_zst(), d.tracked(), alive, self.model.comps[k].is_empty(), m, h, path, p, out)?;
        match v.upd {
            crate::access::Upd::Keep => {}
            crate::access::Upd::Set(s) => {
                self.model.comps[k].insert(h, s);
            }
            crate::access::Upd::Remove => {
                self.model.comps[k].remove(&h);
            }
        }
        if v.returned {
            self.exits[0] += 1;
        }
        Ok(())
    }

    fn model_lazy_insert(&mut self, k: usize, target: Entity, snap: Snap) -> R {
        if self.model.not_dead(target) {
            if self.model.state(target) == St::Live && self.model.index_reuses > 0 {
                // the target may have been created deferred on a reused index this frame
            }
            if let Some(old) = self.model.comps[k].insert(target, snap) {
                if old != ZST_SNAP && !ledger::is_dropped(old.id) {
                    return Err(("C09", format!("value {} replaced by a lazy insert was not destroyed", old.id)));
                }
            }
        } else if snap != ZST_SNAP && !ledger::is_dropped(snap.id) {
            return Err((
                "C09",
                format!("lazy insert targeting dead entity {:?}: the value {} was neither applied nor destroyed", target, snap.id),
            ));
        }
        Ok(())
    }

    /// Run the model's side of maintain's lazy phase against the execution log.
    fn model_run_queue(&mut self) -> R {
        let entries: Vec<LogEntry> = std::mem::take(&mut *self.env.log.lock().unwrap());
        let starts: Vec<u64> = std::mem::take(&mut *self.env.starts.lock().unwrap());
        self.pending_starts = starts.into_iter().collect();
        self.pending_results.clear();
        for e in entries {
            if self.pending_results.insert(e.id, e).is_some() {
                return Err(("C09", "a queued action was executed twice".to_string()));
            }
        }
        self.run_queue_inner()?;
        if let Some(extra) = self.pending_starts.pop_front() {
            return Err(("C09", format!("action #{} ran although it was not (or no longer) queued: executed twice?", extra)));
        }
        if let Some((id, _)) = self.pending_results.iter().next() {
            return Err(("C09", format!("action #{} left an execution record that matches no queued action", id)));
        }
        Ok(())
    }

    /// Drain the model queue in FIFO order against the recorded start order; a `Maintain` step inside an
    /// action re-enters this function (everything queued so far runs before the action continues).
    fn run_queue_inner(&mut self) -> R {
        let mno = self.env.mno.load(Ordering::SeqCst);
        while let Some(a) = self.queue.pop_front() {
            self.lazy_actions_run += 1;
            match a {
                Action::Insert { storage, target, snap } => self.model_lazy_insert(storage, target, snap)?,
                Action::InsertAll { storage, items } => {
                    for (t, s) in items {
                        self.model_lazy_insert(storage, t, s)?;
                    }
                }
                Action::Remove { storage, target } => {
                    if self.model.not_dead(target) {
                        if let Some(old) = self.model.comps[storage].remove(&target) {
                            if old != ZST_SNAP && !ledger::is_dropped(old.id) {
                                return Err(("C09", format!("value {} removed lazily was not destroyed", old.id)));
                            }
                        }
                    }
                }
                Action::Script { id } => {
                    match self.pending_starts.pop_front() {
                        Some(s) if s == id => {}
                        Some(s) => {
                            return Err((
                                "C09",
                                format!("queued actions ran out of order: expected action #{} next, but #{} ran", id, s),
                            ))
                        }
                        None => return Err(("C09", format!("queued action #{} did not run during this maintain", id))),
                    }
                    let entry = match self.pending_results.remove(&id) {
                        Some(e) => e,
                        None => return Err(("C09", format!("queued action #{} started but never finished", id))),
                    };
                    if entry.maintain_no != mno {
                        return Err(("C09", format!("action #{} ran outside of maintain #{}", id, mno)));
                    }
                    let script = self.scripts.get(&id).cloned().expect("script");
                    if script.ops.len() != entry.res.len() {
                        return Err(("C09", format!("action #{} executed {} of {} steps", id, entry.res.len(), script.ops.len())));
                    }
                    for (op, res) in script.ops.into_iter().zip(entry.res.into_iter()) {
                        self.model_subop(id, op, res)?;
                    }
                }
            }
        }
        Ok(())
    }

    fn model_subop(&mut self, id: u64, op: SubOp, res: SubRes) -> R {
        match (op, res) {
            (SubOp::Observe(h), SubRes::Obs { w, e, has }) => {
                let ew = self.model.is_live(h);
                let ee = self.model.not_dead(h);
                if w != ew || e != ee {
                    return Err((
                        "C09",
                        format!(
                            "inside queued action #{}: entity {:?} observed world_alive={} entities_alive={} but deferred creations/deletions should already be merged (expected {} / {})",
                            id, h, w, e, ew, ee
                        ),
                    ));
                }
                let reg = self.reg();
                for k in 0..self.nst {
                    let exp = reg[k] && ee && self.model.comps[k].contains_key(&h);
                    if has[k] != exp {
                        return Err((
                            if self.prop == "C05" { "C05" } else { "C09" },
                            format!(
                                "inside queued action #{}: storage {} contains({:?}) = {} but expected {} (purge / earlier actions not applied in order)",
                                id,
                                self.env.drivers[k].name(),
                                h,
                                has[k],
                                exp
                            ),
                        ));
                    }
                }
            }
            (SubOp::CreateNow(with), SubRes::Created(h, snaps)) => {
                self.on_created(h, false)?;
                for ((k, _), s) in with.iter().zip(snaps) {
                    self.model.comps[*k].insert(h, s);
                }
            }
            (SubOp::CreateAtomic, SubRes::Created(h, _)) => self.on_created(h, true)?,
            (SubOp::Maintain, SubRes::Unit) => {
                self.reentrant_maintains += 1;
                let d = self.model.merge();
                self.expect_destroyed("re-entrant maintain", &d)?;
                self.run_queue_inner()?;
            }
            (SubOp::LazyCreate(with), SubRes::Created(h, snaps)) => {
                self.on_created(h, true)?;
                for ((k, _), s) in with.iter().zip(snaps) {
                    self.queue.push_back(Action::Insert { storage: *k, target: h, snap: s });
                }
            }
            (SubOp::LazyInsertCreated(k, _), SubRes::SnapAt(h, s)) => {
                self.lazy_on_created_in_action += 1;
                self.queue.push_back(Action::Insert { storage: k, target: h, snap: s })
            }
            (SubOp::LazyInsertCreated(..), SubRes::Unit) | (SubOp::InsertCreated(..), SubRes::Unit) => {}
            (SubOp::InsertCreated(k, p), SubRes::OutAt(h, out)) => self.apply_access(k, h, Path::Insert, p, out)?,
            (SubOp::DeleteNow(h), SubRes::Ok(ok)) => {
                let exp = self.model.not_dead(h);
                if ok != exp {
                    return Err(("C02", format!("delete_entity({:?}) inside a queued action returned ok={} expected {}", h, ok, exp)));
                }
                let d = self.model.kill(h);
                self.expect_destroyed("delete inside queued action", &d)?;
            }
            (SubOp::DeleteAtomic(h), SubRes::Ok(ok)) => {
                let exp = self.model.not_dead(h);
                if ok != exp {
                    return Err(("C02", format!("Entities::delete({:?}) inside a queued action returned ok={} expected {}", h, ok, exp)));
                }
                self.model.request_delete(h);
            }
            (SubOp::Insert(k, h, p), SubRes::Out(out)) => self.apply_access(k, h, Path::Insert, p, out)?,
            (SubOp::Remove(k, h), SubRes::Out(out)) => self.apply_access(k, h, Path::Remove, 0, out)?,
            (SubOp::LazyInsert(k, h, _), SubRes::Snap(s)) => {
                self.queue.push_back(Action::Insert { storage: k, target: h, snap: s })
            }
            (SubOp::Enqueue(child), SubRes::Unit) => {
                self.nested_enqueues += 1;
                self.queue.push_back(Action::Script { id: child.id })
            }
            (op, res) => return Err(("C09", format!("action #{}: step {:?} produced unexpected record {:?}", id, op, res))),
        }
        Ok(())
    }

    // ---- checks ------------------------------------------------------------

    fn check_ledger(&mut self) -> R {
        let f = ledger::take_faults();
        if let Some(m) = f.into_iter().next() {
            return Err(("C08", m));
        }
        Ok(())
    }

    fn check_storages(&mut self) -> R {
        let reg = self.reg();
        for k in 0..self.nst {
            if !reg[k] {
                continue;
            }
            let d = &self.env.drivers[k];
            let got = d.dump(self.world());
            let exp = self.model.expected_dump(k);
            if got != exp {
                let gi: BTreeSet<u32> = got.iter().map(|x| x.0).collect();
                let ei: BTreeSet<u32> = exp.iter().map(|x| x.0).collect();
                let extra: Vec<&u32> = gi.difference(&ei).collect();
                let missing: Vec<&u32> = ei.difference(&gi).collect();
                let msg = if !extra.is_empty() || !missing.is_empty() {
                    format!(
                        "storage {}: membership differs from the model after `{}`: unexpected indices {:?}, missing indices {:?}",
                        d.name(),
                        self.hist.last().cloned().unwrap_or_default(),
                        extra,
                        missing
                    )
                } else {
                    let diff = got.iter().zip(exp.iter()).find(|(a, b)| a != b).unwrap();
                    format!(
                        "storage {}: value at index {} differs after `{}`: got {:?}, expected {:?}",
                        d.name(),
                        (diff.0).0,
                        self.hist.last().cloned().unwrap_or_default(),
                        (diff.0).1,
                        (diff.1).1
                    )
                };
                return Err((self.ctx, msg));
            }
            let c = d.count(self.world());
            if c != exp.len() || d.is_empty(self.world()) != exp.is_empty() {
                return Err((self.ctx, format!("storage {}: count()={} is_empty()={} but {} members", d.name(), c, d.is_empty(self.world()), exp.len())));
            }
        }
        self.check_ledger()
    }

    fn check_entities(&mut self, heavy: bool) -> R {
        let exp = self.model.not_dead_sorted();
        let got: Vec<Entity> = {
            let ents = self.world().entities();
            (&ents).join().collect()
        };
        if got != exp {
            return Err((
                "C02",
                format!("(&entities).join() yielded {:?} but the entities not yet dead are {:?} (after `{}`)", trunc(&got), trunc(&exp), self.hist.last().cloned().unwrap_or_default()),
            ));
        }
        // aliveness probes
        let mut probes: Vec<Entity> = Vec::new();
        if heavy || self.model.handles.len() <= 64 {
            probes.extend(self.model.handles.iter().cloned());
        } else {
            // most recent stale handle per index always, older ones sampled
            let mut latest: BTreeMap<u32, Entity> = BTreeMap::new();
            for h in &self.model.dead {
                latest.insert(h.id(), *h);
            }
            probes.extend(latest.values().cloned().take(64));
            for _ in 0..32 {
                let i = self.rng.below(self.model.handles.len());
                probes.push(self.model.handles[i]);
            }
        }
        let world = self.world.as_ref().unwrap();
        let ents = world.entities();
        for h in probes {
            let e = ents.is_alive(h);
            let w = world.is_alive(h);
            let ee = self.model.not_dead(h);
            let ew = self.model.is_live(h);
            if e != ee {
                return Err(("C02", format!("Entities::is_alive({:?}) = {} but the entity is {:?} (after `{}`)", h, e, self.model.state(h), self.hist.last().cloned().unwrap_or_default())));
            }
            if w != ew {
                return Err(("C02", format!("World::is_alive({:?}) = {} but the entity is {:?} (after `{}`)", h, w, self.model.state(h), self.hist.last().cloned().unwrap_or_default())));
            }
            if !ee && self.model.occupant.contains_key(&h.id()) {
                self.stale_occupied_probes += 1;
            }
        }
        Ok(())
    }

    fn check_allocator(&mut self) -> R {
        let snap = self.world().entities().verif_snapshot();
        let model_occ: BTreeSet<u32> = self.model.occupant.keys().cloned().collect();
        let model_pd = self.model.pending_delete_indices();
        crate::model::check_allocator(&snap, &model_occ, &model_pd)
    }

    fn check_all(&mut self, heavy: bool) -> R {
        self.checks += 1;
        if self.lenient {
            // another property's oracle has already diverged in this history: keep looking for a
            // divergence of the property being checked, its own subject first
            let own = self.prop.clone();
            let rs = [self.check_ledger(), self.check_storages(), self.check_entities(heavy), self.check_allocator()];
            for r in rs {
                if let Err((p, m)) = r {
                    if p == own {
                        return Err((p, m));
                    }
                }
            }
            return Ok(());
        }
        self.check_ledger()?;
        self.check_entities(heavy)?;
        self.check_allocator()?;
        self.check_storages()
    }

    // ---- operations ----------------------------------------------------------

    fn op_create(&mut self, kind: usize) -> R {
        self.set_ctx("C05");
        self.domain(&["C01", "C02", "C05", "C09", "C17"]);
        match kind {
            0 => {
                // World::create_entity().with(..).build()
                let with = self.with_list(3);
                let drivers = self.env.drivers.clone();
                let world = self.world.as_mut().unwrap();
                let mut b = world.create_entity();
                let mut snaps = Vec::new();
                for (k, p) in &with {
                    let (b2, s) = drivers[*k].builder_with(b, *p);
                    b = b2;
                    snaps.push(s);
                }
                let h = b.build();
                self.log(format!("create_now({:?}, with={:?})", h, with.iter().map(|x| x.0).collect::<Vec<_>>()));
                self.on_created(h, false)?;
                for ((k, _), s) in with.iter().zip(snaps) {
                    self.model.comps[*k].insert(h, s);
                }
            }
            1 => {
                let n = if self.rng.chance(1, 40) { 70 } else { self.rng.range(1, 4) };
                let hs: Vec<Entity> = self.world_mut().create_iter().take(n).collect();
                self.log(format!("create_iter_now({})", n));
                for h in hs {
                    self.on_created(h, false)?;
                }
            }
            2 => {
                // builder dropped without build(): entity exists, deletion deferred
                let with = self.with_list(2);
                let drivers = self.env.drivers.clone();
                let world = self.world.as_mut().unwrap();
                let mut b = world.create_entity();
                let mut snaps = Vec::new();
                for (k, p) in &with {
                    let (b2, s) = drivers[*k].builder_with(b, *p);
                    b = b2;
                    snaps.push(s);
                }
                let h = b.entity;
                let unwinding = self.rng.chance(1, 3);
                if unwinding {
                    // the unfinished builder is dropped because a panic unwinds through the chain
                    let r = std::panic::catch_unwind(std::panic::AssertUnwindSafe(move || {
                        let _keep = b;
                        panic!("verif: injected panic inside a builder chain");
                    }));
                    assert!(r.is_err());
                } else {
                    drop(b);
                }
                self.log(format!("create_now_dropped_builder({:?}, unwinding={})", h, unwinding));
                self.on_created(h, false)?;
                for ((k, _), s) in with.iter().zip(snaps) {
                    self.model.comps[*k].insert(h, s);
                }
                self.model.request_delete(h);
            }
            3 => {
                let h = self.world().entities().create();
                self.log(format!("create_atomic({:?})", h));
                self.on_created(h, true)?;
            }
            4 => {
                let n = self.rng.range(1, 4);
                let hs: Vec<Entity> = self.world().entities().create_iter().take(n).collect();
                self.log(format!("create_iter_atomic({})", n));
                for h in hs {
                    self.on_created(h, true)?;
                }
            }
            5 | 6 => {
                let built = kind == 5;
                let with = self.with_list(2);
                let drivers = self.env.drivers.clone();
                let world = self.world.as_ref().unwrap();
                let ents = world.entities();
                let mut b = ents.build_entity();
                let mut snaps = Vec::new();
                for (k, p) in &with {
                    let (b2, s) = drivers[*k].res_builder_with(world, b, *p);
                    b = b2;
                    snaps.push(s);
                }
                let h = b.entity;
                if built {
                    let h2 = b.build();
                    assert_eq!(h, h2);
                } else if self.rng.chance(1, 3) {
                    let r = std::panic::catch_unwind(std::panic::AssertUnwindSafe(move || {
                        let _keep = b;
                        panic!("verif: injected panic inside a builder chain");
                    }));
                    assert!(r.is_err());
                } else {
                    drop(b);
                }
                drop(ents);
                self.log(format!("build_entity_res({:?}, built={})", h, built));
                self.on_created(h, true)?;
                for ((k, _), s) in with.iter().zip(snaps) {
                    self.model.comps[*k].insert(h, s);
                }
                if !built {
                    self.model.request_delete(h);
                }
            }
            _ => {
                self.set_ctx("C09");
                let with = self.with_list(3);
                let drivers = self.env.drivers.clone();
                let world = self.world.as_ref().unwrap();
                let ents = world.entities();
                let lazy = world.read_resource::<LazyUpdate>();
                let mut b = lazy.create_entity(&ents);
                let mut snaps = Vec::new();
                for (k, p) in &with {
                    let (b2, s) = drivers[*k].lazy_builder_with(b, *p);
                    b = b2;
                    snaps.push(s);
                }
                let h = b.build();
                drop(lazy);
                drop(ents);
                self.log(format!("lazy_create({:?}, with={:?})", h, with.iter().map(|x| x.0).collect::<Vec<_>>()));
                let reused = self.model.seen_idx.contains(&h.id());
                self.on_created(h, true)?;
                if reused && !with.is_empty() {
                    self.lazy_on_same_frame_reuse += 1;
                }
                for ((k, _), s) in with.iter().zip(snaps) {
                    self.queue.push_back(Action::Insert { storage: *k, target: h, snap: s });
                }
            }
        }
        // a new entity is alive for Entities at once and owns exactly what it was given
        if let Some(h) = self.last_created {
            if !self.world().entities().is_alive(h) {
                return Err(("C02", format!("Entities::is_alive is false for {:?} right after its creation call returned", h)));
            }
        }
        Ok(())
    }

    fn op_delete_now(&mut self, h: Entity) -> R {
        self.set_ctx("C05");
        self.domain(&["C01", "C02", "C05", "C17"]);
        let r = self.world_mut().delete_entity(h);
        self.log(format!("delete_now({:?}) -> {}", h, if r.is_ok() { "ok" } else { "err" }));
        let exp = self.model.not_dead(h);
        match r {
            Ok(()) if exp => {
                let d = self.model.kill(h);
                self.expect_destroyed("delete_entity", &d)?;
            }
            Err(e) if !exp => {
                self.wrong_gen_deletes += 1;
                if wrong_gen_entity(&e) != h {
                    return Err(("C02", format!("delete_entity({:?}) failed with an error naming {:?}", h, e.entity)));
                }
            }
            Ok(()) => return Err(("C02", format!("delete_entity({:?}) succeeded although the entity was already dead", h))),
            Err(_) => return Err(("C02", format!("delete_entity({:?}) failed although the entity is {:?}", h, self.model.state(h)))),
        }
        Ok(())
    }

    fn op_delete_batch(&mut self, list: Vec<Entity>) -> R {
        self.set_ctx("C05");
        self.domain(&["C01", "C02", "C05", "C17"]);
        let r = self.world_mut().delete_entities(&list);
        self.log(format!(
            "delete_batch({:?}) -> {}",
            list,
            match &r {
                Ok(()) => "ok".to_string(),
                Err((_, i)) => format!("err@{}", i),
            }
        ));
        let mut first_dead = None;
        let mut destroyed = Vec::new();
        for (i, h) in list.iter().enumerate() {
            if !self.model.not_dead(*h) {
                first_dead = Some(i);
                break;
            }
            destroyed.extend(self.model.kill(*h));
        }
        match (r, first_dead) {
            (Ok(()), None) => {}
            (Err((e, i)), Some(j)) => {
                self.failing_batches += 1;
                if j > 0 {
                    self.failing_batches_nonempty_prefix += 1;
                }
                if i != j {
                    return Err(("C02", format!("delete_entities({:?}) reported failing position {} but the first dead handle is at {}", list, i, j)));
                }
                if e.entity != list[j] {
                    return Err(("C02", format!("delete_entities error names {:?}, expected {:?}", e.entity, list[j])));
                }
            }
            (Ok(()), Some(j)) => {
                return Err(("C02", format!("delete_entities({:?}) succeeded although position {} holds a dead handle", list, j)))
            }
            (Err((_, i)), None) => {
                return Err(("C02", format!("delete_entities({:?}) failed at {} although every handle was deletable", list, i)))
            }
        }
        self.expect_destroyed("delete_entities", &destroyed)
    }

    fn op_delete_atomic(&mut self, h: Entity) -> R {
        self.set_ctx("C05");
        self.domain(&["C01", "C02", "C05", "C17"]);
        let r = self.world().entities().delete(h);
        self.log(format!("delete_atomic({:?}) -> {}", h, if r.is_ok() { "ok" } else { "err" }));
        let exp = self.model.not_dead(h);
        match r {
            Ok(()) if exp => self.model.request_delete(h),
            Err(e) if !exp => {
                self.wrong_gen_deletes += 1;
                if e.entity != h {
                    return Err(("C02", format!("Entities::delete({:?}) failed with an error naming {:?}", h, e.entity)));
                }
            }
            Ok(()) => return Err(("C02", format!("Entities::delete({:?}) succeeded although the entity was already dead", h))),
            Err(_) => return Err(("C02", format!("Entities::delete({:?}) failed although the entity is {:?}", h, self.model.state(h)))),
        }
        Ok(())
    }

    fn op_delete_all(&mut self) -> R {
        self.set_ctx("C05");
        self.domain(&["C01", "C02", "C05", "C17"]);
        self.world_mut().delete_all();
        self.log("delete_all()".into());
        let all = self.model.not_dead_sorted();
        let mut destroyed = Vec::new();
        for h in all {
            destroyed.extend(self.model.kill(h));
        }
        self.expect_destroyed("delete_all", &destroyed)
    }

    fn op_maintain(&mut self) -> R {
        let had_queue = !self.queue.is_empty();
        // the purge of merged deletions is C05's subject as much as C09's ("only after ... deferred
        // deletions (with their component purge) are effective"): attribute to the one being checked
        self.set_ctx(if had_queue && self.prop != "C05" { "C09" } else { "C05" });
        self.domain(&["C01", "C02", "C05", "C09", "C17"]);
        if !self.env.log.lock().unwrap().is_empty() {
            let id = self.env.log.lock().unwrap()[0].id;
            return Err(("C09", format!("queued action #{} ran before maintain was called", id)));
        }
        self.env.mno.fetch_add(1, Ordering::SeqCst);
        self.world_mut().maintain();
        self.log(format!("maintain() [queue {}]", self.queue.len()));
        let d = self.model.merge();
        self.expect_destroyed("maintain", &d)?;
        self.model_run_queue()?;
        if let Err((p0, m)) = self.check_all(true) {
            // what a maintain with queued actions leaves behind is C09's subject (deferred work of the
            // actions themselves takes effect at the *next* maintain, with its purge)
            let p1 = if had_queue && self.prop == "C09" && (p0 == "C02" || p0 == "C05") { "C09" } else { p0 };
            return Err((p1, m));
        }
        // a second maintain must find nothing left over
        if had_queue && self.rng.chance(1, 2) {
            self.env.mno.fetch_add(1, Ordering::SeqCst);
            self.world_mut().maintain();
            self.log("maintain() [again]".into());
            let d = self.model.merge();
            self.expect_destroyed("maintain", &d)?;
            self.model_run_queue()?;
        }
        Ok(())
    }

    fn op_access(&mut self) -> R {
        let regs = self.registered_storages();
        if regs.is_empty() {
            return Ok(());
        }
        let k = *self.rng.pick(&regs);
        let h = match self.pick_mixed() {
            Some(h) => h,
            None => return Ok(()),
        };
        let path = *self.rng.pick(&ALL_PATHS);
        let p = self.payload();
        let alive = self.model.not_dead(h);
        self.set_ctx(if alive { "C04" } else { "C03" });
        self.domain(if alive { &["C04", "C08"] } else { &["C03", "C08"] });
        let out = self.env.drivers[k].access(self.world(), h, path, p);
        self.log(format!("access({}, {:?}, {:?}) -> {:?}", self.env.drivers[k].name(), h, path, out));
        if !alive {
            *self.stale_probes_by_path.entry(path).or_insert(0) += 1;
        }
        self.apply_access(k, h, path, p, out)
    }

    fn gen_script(&mut self, depth: usize) -> Script {
        self.next_script += 1;
        let id = self.next_script;
        let n = self.rng.range(1, 4);
        let mut ops = Vec::new();
        let regs = self.registered_storages();
        for _ in 0..n {
            let c = self.rng.weighted(&[30, 10, 10, 10, 10, 12, 8, 8, if depth < 2 { 12 } else { 0 }, 8, 6, 6, if depth == 0 { 3 } else { 0 }]);
            let h = self.pick_mixed();
            if (c == 9 || c == 10) && !ops.iter().any(|o| matches!(o, SubOp::CreateAtomic | SubOp::CreateNow(_) | SubOp::LazyCreate(_))) {
                // give the dynamic target something to point at: an entity created by this very action
                ops.push(if self.rng.chance(2, 3) { SubOp::CreateAtomic } else { SubOp::CreateNow(vec![]) });
            }
            let op = match (c, h) {
                (0, Some(h)) => SubOp::Observe(h),
                (1, _) => {
                    let with = self.with_list(2);
                    SubOp::CreateNow(with)
                }
                (2, _) => SubOp::CreateAtomic,
                (3, Some(h)) => SubOp::DeleteNow(h),
                (4, Some(h)) => SubOp::DeleteAtomic(h),
                (5, Some(h)) if !regs.is_empty() => {
                    let p = self.payload();
                    SubOp::Insert(*self.rng.pick(&regs), h, p)
                }
                (6, Some(h)) if !regs.is_empty() => SubOp::Remove(*self.rng.pick(&regs), h),
                (7, Some(h)) if !regs.is_empty() => {
                    let p = self.payload();
                    SubOp::LazyInsert(*self.rng.pick(&regs), h, p)
                }
                (8, _) => SubOp::Enqueue(self.gen_script(depth + 1)),
                (9, _) if !regs.is_empty() => {
                    let p = self.payload();
                    SubOp::LazyInsertCreated(*self.rng.pick(&regs), p)
                }
                (10, _) if !regs.is_empty() => {
                    let p = self.payload();
                    SubOp::InsertCreated(*self.rng.pick(&regs), p)
                }
                (11, _) => {
                    let with = self.with_list(2);
                    SubOp::LazyCreate(with)
                }
                (12, _) => SubOp::Maintain,
                _ => SubOp::CreateAtomic,
            };
            ops.push(op);
        }
        let s = Script { id, ops, mutable: self.rng.chance(1, 3) };
        self.scripts.insert(id, s.clone());
        s
    }

    fn op_lazy(&mut self) -> R {
        self.set_ctx("C09");
        self.domain(&["C09"]);
        let regs = self.registered_storages();
        let c = self.rng.weighted(&[25, 12, 18, 45]);
        match c {
            0 if !regs.is_empty() => {
                if let Some(h) = self.pick_mixed() {
                    let k = *self.rng.pick(&regs);
                    let p = self.payload();
                    let s = {
                        let lazy = self.world().read_resource::<LazyUpdate>();
                        self.env.drivers[k].lazy_insert(&lazy, h, p)
                    };
                    self.log(format!("lazy_insert({}, {:?})", self.env.drivers[k].name(), h));
                    self.queue.push_back(Action::Insert { storage: k, target: h, snap: s });
                }
            }
            1 if !regs.is_empty() => {
                let k = *self.rng.pick(&regs);
                let n = self.rng.range(0, 4);
                let mut items = Vec::new();
                for _ in 0..n {
                    if let Some(h) = self.pick_mixed() {
                        let p = self.payload();
                        items.push((h, p));
                    }
                }
                let snaps = {
                    let lazy = self.world().read_resource::<LazyUpdate>();
                    self.env.drivers[k].lazy_insert_all(&lazy, &items)
                };
                self.log(format!("lazy_insert_all({}, {:?})", self.env.drivers[k].name(), items.iter().map(|x| x.0).collect::<Vec<_>>()));
                self.queue.push_back(Action::InsertAll {
                    storage: k,
                    items: items.iter().map(|x| x.0).zip(snaps).collect(),
                });
            }
            2 if !regs.is_empty() => {
                if let Some(h) = self.pick_mixed() {
                    let k = *self.rng.pick(&regs);
                    {
                        let lazy = self.world().read_resource::<LazyUpdate>();
                        self.env.drivers[k].lazy_remove(&lazy, h);
                    }
                    self.log(format!("lazy_remove({}, {:?})", self.env.drivers[k].name(), h));
                    self.queue.push_back(Action::Remove { storage: k, target: h });
                }
            }
            _ => {
                let s = self.gen_script(0);
                let id = s.id;
                let env = self.env.clone();
                let desc = format!("{:?}", s.ops);
                {
                    let lazy = self.world().read_resource::<LazyUpdate>();
                    if s.mutable {
                        lazy.exec_mut(move |w| exec_script(w, s, env));
                    } else {
                        lazy.exec(move |w| exec_script(w, s, env));
                    }
                }
                self.log(format!("lazy_exec(#{} {})", id, desc));
                self.queue.push_back(Action::Script { id });
            }
        }
        Ok(())
    }

    /// A busy frame: thousands of queued actions; each must run exactly once at the next maintain.
    fn op_lazy_flood(&mut self) -> R {
        self.set_ctx("C09");
        self.domain(&["C09"]);
        let n = self.rng.range(4200, 9000);
        for _ in 0..n {
            self.next_script += 1;
            let s = Script { id: self.next_script, ops: Vec::new(), mutable: false };
            self.scripts.insert(s.id, s.clone());
            let id = s.id;
            let env = self.env.clone();
            {
                let lazy = self.world().read_resource::<LazyUpdate>();
                lazy.exec(move |w| exec_script(w, s, env));
            }
            self.queue.push_back(Action::Script { id });
        }
        self.log(format!("lazy_flood({} actions)", n));
        Ok(())
    }

    fn op_clear(&mut self) -> R {
        let regs = self.registered_storages();
        if regs.is_empty() {
            return Ok(());
        }
        self.set_ctx("C04");
        self.domain(&["C04", "C08"]);
        let k = *self.rng.pick(&regs);
        self.env.drivers[k].clear(self.world());
        self.log(format!("clear({})", self.env.drivers[k].name()));
        let old: Vec<Snap> = std::mem::take(&mut self.model.comps[k]).into_values().collect();
        for s in old {
            self.exits[2] += 1;
            if s != ZST_SNAP && !ledger::is_dropped(s.id) {
                return Err(("C08", format!("clear(): value {} was not destroyed", s.id)));
            }
        }
        Ok(())
    }

    fn op_register(&mut self) -> R {
        // register a late storage, or re-register an existing one (must not reset it)
        self.set_ctx("C05");
        self.domain(&["C05"]);
        let k = self.rng.below(self.nst);
        let how = self.rng.below(8) as u8;
        let drivers = self.env.drivers.clone();
        drivers[k].register(self.world_mut(), how);
        self.env.registered.lock().unwrap()[k] = true;
        self.reg_paths_used.insert(how);
        self.log(format!("register({}, how={})", drivers[k].name(), how));
        Ok(())
    }
}

fn trunc<T: std::fmt::Debug, I: IntoIterator<Item = T>>(it: I) -> Vec<T> {
    it.into_iter().take(24).collect()
}

fn run_case(rep: &mut Report, case: u64) {
    let cfg = rep.cfg.clone();
    let mut rng = derive(cfg.seed, &[hash_str("world"), case]);
    ledger::reset();
    let pool = all_drivers();
    let n = rng.range(3, 9).min(pool.len());
    let mut idx: Vec<usize> = (0..pool.len()).collect();
    rng.shuffle(&mut idx);
    let chosen: BTreeSet<usize> = idx.into_iter().take(n).collect();
    let drivers: Vec<Box<dyn Driver>> = pool.into_iter().enumerate().filter(|(i, _)| chosen.contains(i)).map(|(_, d)| d).collect();
    let nst = drivers.len();
    let env = Env {
        drivers: Arc::new(drivers),
        registered: Arc::new(Mutex::new(vec![false; nst])),
        log: Arc::new(Mutex::new(Vec::new())),
        starts: Arc::new(Mutex::new(Vec::new())),
        mno: Arc::new(AtomicU64::new(0)),
    };
    let long = cfg.extra_u64("long", 0) == 1 || rng.chance(1, 50);
    let mut nops = if long { cfg.ops * 12 } else { rng.range(cfg.ops / 3 + 1, cfg.ops) };
    let mut w = W {
        world: Some(World::new()),
        env,
        nst,
        model: Model::new(nst),
        queue: Queue::new(),
        scripts: BTreeMap::new(),
        next_script: 0,
        next_payload: 0x1000,
        hist: Vec::new(),
        ctx: "C05",
        rng: rng.clone(),
        last_created: None,
        sig: Sig::default(),
        wrong_gen_deletes: 0,
        failing_batches: 0,
        failing_batches_nonempty_prefix: 0,
        stale_occupied_probes: 0,
        stale_probes_by_path: BTreeMap::new(),
        nested_enqueues: 0,
        reentrant_maintains: 0,
        pending_starts: std::collections::VecDeque::new(),
        pending_results: BTreeMap::new(),
        lazy_on_created_in_action: 0,
        lazy_on_same_frame_reuse: 0,
        lazy_actions_run: 0,
        reg_paths_used: BTreeSet::new(),
        purged_multi: 0,
        creations_after_failing_batch: 0,
        exits: [0; 4],
        checks: 0,
        heavy_every: 1,
        prop: cfg.prop.clone(),
        lenient: false,
    };
    // initial registrations: most storages now, some later
    for k in 0..nst {
        if w.rng.chance(4, 5) {
            let how = w.rng.below(8) as u8;
            let drivers = w.env.drivers.clone();
            drivers[k].register(w.world_mut(), how);
            w.env.registered.lock().unwrap()[k] = true;
            w.reg_paths_used.insert(how);
            w.hist.push(format!("register({}, how={})", drivers[k].name(), how));
        }
    }
    let mut planned: Vec<(usize, Hint)> = Vec::new(); // (op code, target hint), executed front first
    let mut failure: Option<(Fail, usize)> = None;
    let mut foreign_first: Option<(Fail, usize)> = None;
    let max_live = cfg.extra_u64("max_live", 8) as usize;
    let mut step = 0usize;
    while step < nops {
        step += 1;
        // op codes: 0..=7 create kinds, 8 delete_now, 9 batch, 10 delete_atomic, 11 delete_all,
        // 12 maintain, 13 access, 14 lazy, 15 clear, 16 register
        let (code, hint) = if !planned.is_empty() {
            planned.remove(0)
        } else if w.rng.chance(1, 12) {
            // plant a known-dangerous motif
            match w.rng.below(5) {
                0 => planned = vec![(8, Hint::Live), (3, Hint::Any), (8, Hint::Last), (3, Hint::Any), (13, Hint::Any), (0, Hint::Any), (12, Hint::Any)],
                1 => planned = vec![(10, Hint::Live), (8, Hint::PendingDelete), (0, Hint::Any), (12, Hint::Any)],
                2 => planned = vec![(9, Hint::Dead), (0, Hint::Any), (0, Hint::Any)],
                3 => planned = vec![(10, Hint::NotDead), (3, Hint::Any), (11, Hint::Any), (3, Hint::Any), (12, Hint::Any)],
                _ => planned = vec![(8, Hint::Live), (7, Hint::Any), (14, Hint::Any), (12, Hint::Any)],
            }
            planned.remove(0)
        } else {
            let live = w.model.n_not_dead();
            let grow = if live < 2 { 60 } else if live >= max_live { 4 } else { 22 };
            let weights = [grow, grow / 3, grow / 4, grow, grow / 3, grow / 3, grow / 4, grow / 2, 14, 9, 12, 1, 9, 40, 16, 1, 2];
            if w.rng.chance(1, 2500) {
                (17, Hint::Any)
            } else {
                (w.rng.weighted(&weights), Hint::Any)
            }
        };
        let r = std::panic::catch_unwind(std::panic::AssertUnwindSafe(|| -> R {
            match code {
                0..=7 => w.op_create(code)?,
                8 => {
                    let h = match hint {
                        Hint::Any => w.pick_mixed(),
                        x => w.pick(x).or_else(|| w.pick_mixed()),
                    };
                    if let Some(h) = h {
                        w.op_delete_now(h)?
                    }
                }
                9 => {
                    let n = w.rng.range(1, 6);
                    let mut list = Vec::new();
                    for _ in 0..n {
                        let pickd = if w.rng.chance(1, 5) && !list.is_empty() {
                            Some(*w.rng.pick(&list)) // repeated handle
                        } else if w.rng.chance(1, 6) || (hint == Hint::Dead && list.len() == 1) {
                            w.pick(Hint::Dead)
                        } else {
                            w.pick(Hint::NotDead)
                        };
                        if let Some(h) = pickd {
                            list.push(h);
                        }
                    }
                    if !list.is_empty() {
                        w.op_delete_batch(list)?
                    }
                }
                10 => {
                    let h = match hint {
                        Hint::Any => w.pick_mixed(),
                        x => w.pick(x).or_else(|| w.pick_mixed()),
                    };
                    if let Some(h) = h {
                        w.op_delete_atomic(h)?
                    }
                }
                11 => w.op_delete_all()?,
                12 => w.op_maintain()?,
                13 => w.op_access()?,
                14 => w.op_lazy()?,
                15 => w.op_clear()?,
                17 => w.op_lazy_flood()?,
                _ => w.op_register()?,
            }
            let big = w.model.handles.len() > 256;
            let lite = cfg.extra_u64("lite", 0);
            if (lite > 0 && step as u64 % lite == 0) || (lite == 0 && (!big || step % 16 == 0)) {
                w.check_all(false)?;
            } else {
                w.check_ledger()?;
            }
            Ok(())
        }));
        let r = match r {
            Ok(r) => r,
            Err(_) if w.lenient => break, // the model lost track after the foreign divergence
            Err(e) => std::panic::resume_unwind(e),
        };
        if let Err(f) = r {
            let own = f.0 == cfg.prop || cfg.prop.is_empty() || cfg.prop == "ALL";
            if own {
                failure = Some((f, step));
                break;
            }
            // Another property's oracle diverged (the tree is broken anyway). Keep driving this history
            // for a while, own subject first, to see whether the checked property diverges as well: the
            // first foreign divergence is reported if it does not.
            if foreign_first.is_none() {
                foreign_first = Some((f, step));
                w.lenient = true;
                nops = nops.min(step + 40);
            }
        }
    }
    if failure.is_none() && foreign_first.is_some() {
        failure = foreign_first.take();
    }
    // end of history: optional final maintain, then drop the world and balance the ledger
    if failure.is_none() {
        let r: R = (|| {
            if w.rng.chance(1, 2) {
                w.op_maintain()?;
            }
            w.check_all(true)?;
            let remaining: u64 = w.model.comps.iter().map(|m| m.len() as u64).sum();
            w.exits[3] += remaining;
            let world = w.world.take().unwrap();
            drop(world);
            w.hist.push("drop(world)".into());
            if let Some(m) = ledger::take_faults().into_iter().next() {
                return Err(("C08", m));
            }
            // the lazy queue may still hold values: they must be destroyed with the world
            let left = ledger::undropped();
            if let Some((id, origin, loc)) = left.first() {
                return Err((
                    "C08",
                    format!("after the world was dropped, value {} ({:?}, owned by {:?}) was never destroyed: leaked ({} values in total)", id, origin, loc, left.len()),
                ));
            }
            let (b, d) = ledger::zst_balance();
            if b != d {
                return Err(("C08", format!("zero-sized components: {} created but {} destroyed after the world was dropped", b, d)));
            }
            Ok(())
        })();
        if let Err(f) = r {
            failure = Some((f, step + 1));
        }
    }
    // drop scripts etc. before the next case
    rep.cases_run += 1;
    rep.bump("ops_total", w.hist.len() as u64);
    rep.bump("index_reuses", w.model.index_reuses);
    rep.max("max_generation", w.model.max_gen as u64);
    rep.bump("creations_while_awaiting_maintain", w.model.created_while_pending);
    rep.bump("wrong_generation_deletes", w.wrong_gen_deletes);
    rep.bump("failing_batches", w.failing_batches);
    rep.bump("failing_batches_nonempty_prefix", w.failing_batches_nonempty_prefix);
    rep.bump("creations_after_failing_batch", w.creations_after_failing_batch);
    rep.bump("stale_probes_on_occupied_index", w.stale_occupied_probes);
    rep.bump("nested_enqueues", w.nested_enqueues);
    rep.bump("reentrant_maintains_inside_actions", w.reentrant_maintains);
    rep.bump("lazy_inserts_on_entities_created_inside_an_action", w.lazy_on_created_in_action);
    rep.bump("lazy_builder_on_reused_index_same_frame", w.lazy_on_same_frame_reuse);
    rep.bump("lazy_actions_run", w.lazy_actions_run);
    rep.bump("purges_spanning_2plus_storages", w.purged_multi);
    rep.bump("full_state_checks", w.checks);
    rep.bump("values_returned", w.exits[0]);
    rep.bump("values_destroyed_by_entity_deletion", w.exits[1]);
    rep.bump("values_destroyed_by_clear", w.exits[2]);
    rep.bump("values_destroyed_by_world_drop", w.exits[3]);
    rep.max("peak_entities", w.model.peak as u64);
    for (p, n) in &w.stale_probes_by_path {
        rep.bump(&format!("stale_probe_{:?}", p), *n);
    }
    for h in &w.hist {
        rep.op(h.split(|c| c == '(' || c == ' ').next().unwrap_or("?"));
    }
    // non-triviality rule depends on the property being checked
    let nontrivial = match cfg.prop.as_str() {
        "C01" => w.model.index_reuses >= 1 && w.model.created_while_pending >= 1,
        "C02" => w.wrong_gen_deletes >= 1 && w.failing_batches >= 1 && w.stale_occupied_probes >= 1,
        "C03" => w.stale_probes_by_path.len() >= 3 && w.stale_occupied_probes >= 1,
        "C05" => w.purged_multi >= 1 && w.model.index_reuses >= 1 && w.reg_paths_used.len() >= 2,
        "C08" => w.exits.iter().all(|x| *x >= 1),
        "C09" => w.nested_enqueues >= 1 && w.lazy_actions_run >= 3,
        "C17" => w.failing_batches_nonempty_prefix >= 1 && w.creations_after_failing_batch >= 1,
        _ => w.model.index_reuses >= 1,
    };
    if nontrivial && failure.is_none() {
        rep.distinct(w.sig.0);
    }
    if rep.samples.len() < 2 && nontrivial {
        let h: Vec<&String> = w.hist.iter().take(60).collect();
        rep.sample(serde_json::json!({"case": case, "ops": h}));
    }
    if let Some(((prop, msg), step)) = failure {
        let sig = format!("{}:{}", prop, msg.split(':').next().unwrap_or(""));
        rep.violation(prop, case, step, msg, sig, &w.hist);
    }
    // make sure nothing of this case survives into the next one
    drop(w);
    let _ = ledger::take_faults();
}

pub fn run(rep: &mut Report) {
    if rep.cfg.prop == "C20" {
        let mut hashes = std::collections::BTreeMap::new();
        for case in rep.cfg.my_cases() {
            if rep.full() {
                break;
            }
            crate::report::guarded_det(rep, case, &mut hashes, &|rep: &mut Report| run_case(rep, case));
        }
        crate::report::push_transcripts(rep, &hashes);
        return;
    }
    for case in rep.cfg.my_cases() {
        if rep.full() {
            break;
        }
        crate::report::guarded(rep, case, |rep| run_case(rep, case));
    }
    for (k, v) in ledger::stats_snapshot() {
        rep.bump(&k, v);
    }
}
