//! Engine `conc` (C10): concurrent Entities::create / create_iter / delete /
//! is_alive / join and LazyUpdate calls through shared access.
//!
//! mode `controlled`: the verif-hooks yield callback hands control to a
//!   token-passing scheduler (exactly one worker runs at a time; at every hook
//!   point / operation boundary the next worker is chosen by the seeded PRNG),
//!   so interleavings between the atomic steps are driven deliberately and the
//!   schedule is recorded (evidence counts distinct schedules).
//! mode `stress`: free-running OS threads, the hook injects yields / spins.
//!   The same mode is what runs under ThreadSanitizer and Miri.
//!
//! The oracle works at the client boundary: per-thread (call, result) records,
//! checked with pairwise distinctness, per-call postconditions and - after
//! maintain - one set equation and one exactly-once equation.

use std::cell::Cell;
use std::collections::{BTreeMap, BTreeSet};
use std::sync::atomic::{AtomicU64, Ordering};
use std::sync::{Arc, Condvar, Mutex};

use specs::prelude::*;
use specs::Builder;

use crate::comps::*;
use crate::ledger::{self};
use crate::model::Fail;
use crate::report::{trace, Report};
use crate::rng::{derive, hash_str, mix, Rng, Sig};

type R = Result<(), Fail>;

// ----------------------------------------------------------------- scheduler

struct Forced {
    prefix: Vec<usize>,
    pos: usize,
    /// (choice taken, number of alternatives) at every scheduling decision
    record: Vec<(usize, usize)>,
}
struct Inner {
    current: Option<usize>,
    done: Vec<bool>,
    rng: Rng,
    switch_den: u32,
    trace: Vec<(u16, u16)>,
    /// enumeration mode: follow `prefix`, then always continue the yielding thread
    forced: Option<Forced>,
}
pub struct Sched {
    inner: Mutex<Inner>,
    cv: Condvar,
}

thread_local! {
    static TID: Cell<Option<usize>> = Cell::new(None);
}
static SCHED: Mutex<Option<Arc<Sched>>> = Mutex::new(None);
static STRESS_SEED: AtomicU64 = AtomicU64::new(0);

impl Sched {
    fn new(n: usize, rng: Rng, switch_den: u32) -> Sched {
        Sched {
            inner: Mutex::new(Inner { current: None, done: vec![false; n], rng, switch_den, trace: Vec::new(), forced: None }),
            cv: Condvar::new(),
        }
    }
    fn pick_next(inner: &mut Inner, me: Option<usize>) {
        let runnable: Vec<usize> = inner.done.iter().enumerate().filter(|(_, d)| !**d).map(|(i, _)| i).collect();
        if runnable.is_empty() {
            inner.current = None;
            return;
        }
        if let Some(f) = inner.forced.as_mut() {
            // deterministic order with the yielding thread first: choice 0 = keep running it
            let mut order = runnable.clone();
            if let Some(m) = me {
                if let Some(p) = order.iter().position(|x| *x == m) {
                    order.remove(p);
                    order.insert(0, m);
                }
            }
            let choice = if f.pos < f.prefix.len() { f.prefix[f.pos].min(order.len() - 1) } else { 0 };
            f.record.push((choice, order.len()));
            f.pos += 1;
            inner.current = Some(order[choice]);
            return;
        }
        // keep running the same worker with probability 1 - 1/switch_den
        if let Some(m) = me {
            if !inner.done[m] && !inner.rng.chance(1, inner.switch_den) {
                inner.current = Some(m);
                return;
            }
        }
        let i = inner.rng.below(runnable.len());
        inner.current = Some(runnable[i]);
    }
    fn wait_turn(&self, tid: usize) {
        let mut g = self.inner.lock().unwrap_or_else(|e| e.into_inner());
        while g.current != Some(tid) {
            g = self.cv.wait(g).unwrap_or_else(|e| e.into_inner());
        }
    }
    fn yield_point(&self, tid: usize, point: u32) {
        let mut g = self.inner.lock().unwrap_or_else(|e| e.into_inner());
        g.trace.push((tid as u16, point as u16));
        Sched::pick_next(&mut g, Some(tid));
        self.cv.notify_all();
        while g.current != Some(tid) {
            g = self.cv.wait(g).unwrap_or_else(|e| e.into_inner());
        }
    }
    fn finish(&self, tid: usize) {
        let mut g = self.inner.lock().unwrap_or_else(|e| e.into_inner());
        g.done[tid] = true;
        g.trace.push((tid as u16, 999));
        Sched::pick_next(&mut g, None);
        self.cv.notify_all();
    }
    fn kick(&self) {
        let mut g = self.inner.lock().unwrap_or_else(|e| e.into_inner());
        Sched::pick_next(&mut g, None);
        self.cv.notify_all();
    }
}

struct FinishGuard(Arc<Sched>, usize);
impl Drop for FinishGuard {
    fn drop(&mut self) {
        self.0.finish(self.1);
        TID.with(|t| t.set(None));
    }
}

fn controlled_hook(point: u32) {
    let tid = TID.with(|t| t.get());
    if let Some(tid) = tid {
        let s = SCHED.lock().unwrap_or_else(|e| e.into_inner()).clone();
        if let Some(s) = s {
            s.yield_point(tid, point);
        }
    }
}

fn stress_hook(point: u32) {
    // cheap thread-local xorshift, seeded per thread; no shared state, no locks
    thread_local! { static X: Cell<u64> = Cell::new(0); }
    X.with(|x| {
        let mut v = x.get();
        if v == 0 {
            v = mix(STRESS_SEED.load(Ordering::Relaxed) ^ (x as *const _ as u64)) | 1;
        }
        v ^= v << 13;
        v ^= v >> 7;
        v ^= v << 17;
        x.set(v);
        match (v ^ point as u64) % 16 {
            0 | 1 => std::thread::yield_now(),
            2 => {
                for _ in 0..(v % 64) {
                    std::hint::spin_loop();
                }
            }
            _ => {}
        }
    });
}

// ----------------------------------------------------------------- program

#[derive(Clone, Debug)]
enum Op {
    Create,
    CreateIter(usize),
    /// delete an entity of the initial live set (by position)
    DeleteInitial(usize),
    /// delete the k-th entity this worker created so far (if any)
    DeleteOwn(usize),
    IsAliveInitial(usize),
    IsAliveStale(usize),
    IsAliveOwn(usize),
    Join,
    LazyExec(u64),
    LazyInsert(usize),
    LazyCreate(u64),
    BuildEntity,
}

#[derive(Clone, Debug)]
enum Rec {
    Created(Entity, bool),
    Deleted(Entity, bool),
    Alive(Entity, bool, bool), // handle, result, expected
    Joined(Vec<Entity>, Vec<Entity>), // yielded, must-contain
    LazyQueued(u64),
    LazyInsertQueued(Entity, u64),
    LazyCreated(Entity, u64),
}

struct Shared {
    exec_log: Mutex<Vec<u64>>,
}

fn worker(
    world: &World,
    shared: &Arc<Shared>,
    ops: &[Op],
    initial: &[Entity],
    stale: &[Entity],
    yield_between: &dyn Fn(u32),
) -> Vec<Rec> {
    let ents = world.entities();
    let lazy = world.read_resource::<LazyUpdate>();
    let mut own: Vec<Entity> = Vec::new();
    let mut own_deleted: BTreeSet<Entity> = BTreeSet::new();
    let mut out = Vec::new();
    for (i, op) in ops.iter().enumerate() {
        yield_between(100 + i as u32);
        match op {
            Op::Create => {
                let e = ents.create();
                let a = ents.is_alive(e);
                own.push(e);
                out.push(Rec::Created(e, a));
            }
            Op::CreateIter(n) => {
                let es: Vec<Entity> = ents.create_iter().take(*n).collect();
                for e in es {
                    let a = ents.is_alive(e);
                    own.push(e);
                    out.push(Rec::Created(e, a));
                }
            }
            Op::BuildEntity => {
                let e = ents.build_entity().build();
                let a = ents.is_alive(e);
                own.push(e);
                out.push(Rec::Created(e, a));
            }
            Op::DeleteInitial(k) => {
                if !initial.is_empty() {
                    let e = initial[k % initial.len()];
                    out.push(Rec::Deleted(e, ents.delete(e).is_ok()));
                }
            }
            Op::DeleteOwn(k) => {
                if !own.is_empty() {
                    let e = own[k % own.len()];
                    own_deleted.insert(e);
                    out.push(Rec::Deleted(e, ents.delete(e).is_ok()));
                }
            }
            Op::IsAliveInitial(k) => {
                if !initial.is_empty() {
                    let e = initial[k % initial.len()];
                    out.push(Rec::Alive(e, ents.is_alive(e), true));
                }
            }
            Op::IsAliveStale(k) => {
                if !stale.is_empty() {
                    let e = stale[k % stale.len()];
                    out.push(Rec::Alive(e, ents.is_alive(e), false));
                }
            }
            Op::IsAliveOwn(k) => {
                if !own.is_empty() {
                    let e = own[k % own.len()];
                    out.push(Rec::Alive(e, ents.is_alive(e), true));
                }
            }
            Op::Join => {
                let must: Vec<Entity> = initial.iter().chain(own.iter()).cloned().collect();
                let got: Vec<Entity> = (&ents).join().collect();
                out.push(Rec::Joined(got, must));
            }
            Op::LazyExec(id) => {
                let sh = shared.clone();
                let id = *id;
                lazy.exec(move |_w| sh.exec_log.lock().unwrap().push(id));
                out.push(Rec::LazyQueued(id));
            }
            Op::LazyInsert(k) => {
                let target = if !own.is_empty() && k % 2 == 0 {
                    Some(own[k % own.len()])
                } else if !initial.is_empty() {
                    Some(initial[k % initial.len()])
                } else {
                    None
                };
                if let Some(t) = target {
                    let tag = ((t.id() as u64) << 32) | (*k as u64 & 0xffff);
                    lazy.insert(t, Tag(tag));
                    out.push(Rec::LazyInsertQueued(t, tag));
                }
            }
            Op::LazyCreate(tag) => {
                let e = lazy.create_entity(&ents).with(Tag(*tag)).build();
                own.push(e);
                out.push(Rec::LazyCreated(e, *tag));
            }
        }
    }
    out
}

#[derive(Debug, Clone, Copy, PartialEq)]
pub struct Tag(pub u64);
impl Component for Tag {
    type Storage = specs::storage::VecStorage<Self>;
}

fn gen_ops(rng: &mut Rng, n: usize, action_id: &mut u64, lazy_ok: bool) -> Vec<Op> {
    let mut v = Vec::new();
    for _ in 0..n {
        let c = rng.weighted(&[34, 8, 14, 8, 4, 4, 4, 5, if lazy_ok { 6 } else { 0 }, if lazy_ok { 5 } else { 0 }, if lazy_ok { 4 } else { 0 }, 4]);
        v.push(match c {
            0 => Op::Create,
            1 => Op::CreateIter(rng.range(1, 3)),
            2 => Op::DeleteInitial(rng.below(64)),
            3 => Op::DeleteOwn(rng.below(64)),
            4 => Op::IsAliveInitial(rng.below(64)),
            5 => Op::IsAliveStale(rng.below(64)),
            6 => Op::IsAliveOwn(rng.below(64)),
            7 => Op::Join,
            8 => {
                *action_id += 1;
                Op::LazyExec(*action_id)
            }
            9 => Op::LazyInsert(rng.below(64)),
            10 => {
                *action_id += 1;
                Op::LazyCreate(0xC0DE_0000 + *action_id)
            }
            _ => Op::BuildEntity,
        });
    }
    v
}


/// The oracle over one concurrent phase: per-call postconditions, pairwise distinctness, then maintain
/// and the set / exactly-once equations. Updates `initial` / `stale` for the next phase.
#[allow(clippy::too_many_arguments)]
fn judge_round(
    rep: &mut Report,
    prop: &str,
    world: &mut World,
    shared: &Shared,
    records: &[Vec<Rec>],
    initial: &mut Vec<Entity>,
    stale: &mut Vec<Entity>,
    free_at_start: usize,
    max_id_at_start: usize,
) -> R {
    let mut created: Vec<Entity> = Vec::new();
    let mut delete_requested: BTreeSet<Entity> = BTreeSet::new();
    let mut queued: Vec<u64> = Vec::new();
    let mut lazy_inserts: Vec<(Entity, u64)> = Vec::new();
    let mut lazy_created: Vec<(Entity, u64)> = Vec::new();
    let mut joins: Vec<(Vec<Entity>, Vec<Entity>)> = Vec::new();
    for (t, recs) in records.iter().enumerate() {
        for r in recs {
            match r {
                Rec::Created(e, alive) => {
                    if !*alive {
                        return Err(("C10", format!("thread {}: Entities::is_alive({:?}) was false right after the creation call returned", t, e)));
                    }
                    created.push(*e);
                }
                Rec::LazyCreated(e, tag) => {
                    created.push(*e);
                    lazy_created.push((*e, *tag));
                }
                Rec::Deleted(e, ok) => {
                    if !*ok {
                        return Err(("C10", format!("thread {}: Entities::delete({:?}) failed although the entity was alive", t, e)));
                    }
                    delete_requested.insert(*e);
                }
                Rec::Alive(e, got, exp) => {
                    if got != exp {
                        return Err(("C10", format!("thread {}: Entities::is_alive({:?}) = {} during the concurrent phase, expected {}", t, e, got, exp)));
                    }
                }
                Rec::Joined(got, must) => joins.push((got.clone(), must.clone())),
                Rec::LazyQueued(id) => queued.push(*id),
                Rec::LazyInsertQueued(e, tag) => lazy_inserts.push((*e, *tag)),
            }
        }
    }
    // handle uniqueness is C01's statement as much as C10's
    let uniq_tag: &'static str = if prop == "C01" { "C01" } else { "C10" };
    rep.bump("creates_observed", created.len() as u64);
    rep.bump("deletes_observed", delete_requested.len() as u64);
    // pairwise distinct handles, distinct from everything seen before, distinct indices among the not-yet-dead
    let mut seen: BTreeSet<Entity> = initial.iter().chain(stale.iter()).cloned().collect();
    let mut idx: BTreeMap<u32, Entity> = initial.iter().map(|e| (e.id(), *e)).collect();
    for e in &created {
        if !seen.insert(*e) {
            if prop == "C17" {
                // duplicate handles are C01's / C10's subject; keep going so the recycling oracle can see the leak
                continue;
            }
            return Err((uniq_tag, format!("handle {:?} was returned twice (to two threads, or it equals an earlier handle)", e)));
        }
        if let Some(o) = idx.insert(e.id(), *e) {
            if prop == "C17" {
                continue;
            }
            return Err((uniq_tag, format!("two entities that are not yet dead share index {}: {:?} and {:?}", e.id(), o, e)));
        }
    }
    // C17 under concurrency: a never-used index may only be taken once the free list is exhausted,
    // so exactly min(#creations, #free entries at the start) creations must have recycled an index
    let recycled = created.iter().filter(|e| (e.id() as usize) < max_id_at_start).count();
    let want = created.len().min(free_at_start);
    if recycled != want {
        return Err((
            "C17",
            format!(
                "{} concurrent creations with {} free-list entries available recycled only {} indices: a never-used index was taken while a dead one was still free (new indices {:?})",
                created.len(),
                free_at_start,
                recycled,
                created.iter().map(|e| e.id()).filter(|i| (*i as usize) >= max_id_at_start).take(8).collect::<Vec<_>>()
            ),
        ));
    }
    rep.bump("concurrent_recycling_checks", 1);
    let all_possible: BTreeSet<Entity> = initial.iter().chain(created.iter()).cloned().collect();
    for (got, must) in &joins {
        let gs: BTreeSet<Entity> = got.iter().cloned().collect();
        if gs.len() != got.len() {
            return Err(("C10", "a concurrent (&entities).join() yielded an entity twice".to_string()));
        }
        if let Some(m) = must.iter().find(|m| !gs.contains(m)) {
            return Err(("C10", format!("a concurrent (&entities).join() missed {:?}, which was alive for the joining thread", m)));
        }
        if let Some(x) = got.iter().find(|x| !all_possible.contains(x)) {
            return Err(("C10", format!("a concurrent (&entities).join() yielded {:?}, which no creation call ever returned", x)));
        }
    }
    // quiescent point: allocator invariants before maintain
    let occ: BTreeSet<u32> = idx.keys().cloned().collect();
    let pd: BTreeSet<u32> = delete_requested.iter().map(|e| e.id()).collect();
    crate::model::check_allocator(&world.entities().verif_snapshot(), &occ, &pd).map_err(|(p0, m)| (if p0 == "C17" && prop == "C17" { "C17" } else { "C10" }, format!("after the concurrent phase: {}", m)))?;
    // some of the entities created through shared access are deleted through exclusive access before
    // the maintain (they die at once and must stay dead)
    {
        let mut k = 0u64;
        let victims: Vec<Entity> = created
            .iter()
            .filter(|e| {
                k += 1;
                !delete_requested.contains(*e) && mix(e.id() as u64 ^ k) % 5 == 0
            })
            .cloned()
            .collect();
        for e in victims {
            if world.delete_entity(e).is_err() {
                return Err(("C10", format!("World::delete_entity({:?}) failed for an entity created through shared access in this frame", e)));
            }
            delete_requested.insert(e);
            rep.bump("exclusive_deletes_of_unmerged_entities", 1);
        }
    }
    shared.exec_log.lock().unwrap().clear();
    world.maintain();
    let alive_now: BTreeSet<Entity> = {
        let e = world.entities();
        (&e).join().collect()
    };
    let expect: BTreeSet<Entity> = all_possible.difference(&delete_requested).cloned().collect();
    if alive_now != expect {
        let missing: Vec<&Entity> = expect.difference(&alive_now).take(6).collect();
        let extra: Vec<&Entity> = alive_now.difference(&expect).take(6).collect();
        return Err(("C10", format!("after maintain the alive set is not initial + created - delete-requested: missing {:?}, unexpected {:?}", missing, extra)));
    }
    for e in &expect {
        if !world.is_alive(*e) {
            return Err(("C10", format!("after maintain {:?} is not alive for World::is_alive", e)));
        }
    }
    for e in &delete_requested {
        if world.entities().is_alive(*e) {
            return Err(("C10", format!("after maintain the deleted entity {:?} is still alive", e)));
        }
    }
    // every queued action ran exactly once
    let mut log = shared.exec_log.lock().unwrap().clone();
    log.sort();
    queued.sort();
    if log != queued {
        return Err(("C10", format!("queued lazy actions {:?} but executed {:?}", queued.iter().take(12).collect::<Vec<_>>(), log.iter().take(12).collect::<Vec<_>>())));
    }
    {
        // per target: for every thread, the last tag it queued (queue order within a thread is
        // program order; across threads any order is allowed)
        let tags = world.read_storage::<Tag>();
        let mut last_per_thread: BTreeMap<Entity, BTreeMap<usize, u64>> = BTreeMap::new();
        for (t, recs) in records.iter().enumerate() {
            for r in recs {
                match r {
                    Rec::LazyCreated(e, tag) | Rec::LazyInsertQueued(e, tag) => {
                        last_per_thread.entry(*e).or_default().insert(t, *tag);
                    }
                    _ => {}
                }
            }
        }
        let _ = (&lazy_created, &lazy_inserts);
        for (e, per) in last_per_thread {
            let allowed: Vec<u64> = per.values().cloned().collect();
            if expect.contains(&e) {
                match tags.get(e) {
                    Some(Tag(t)) if allowed.contains(t) => {}
                    other => {
                        return Err((
                            "C10",
                            format!("lazy insert / lazily built component for {:?} lost: component after maintain is {:?}, the last tags queued per thread are {:?}", e, other, allowed),
                        ))
                    }
                }
            } else if tags.get(e).is_some() {
                return Err(("C10", format!("lazy insert was applied to dead entity {:?}", e)));
            }
        }
    }
    let occ: BTreeSet<u32> = expect.iter().map(|e| e.id()).collect();
    crate::model::check_allocator(&world.entities().verif_snapshot(), &occ, &BTreeSet::new()).map_err(|(p0, m)| (if p0 == "C17" && prop == "C17" { "C17" } else { "C10" }, format!("after maintain: {}", m)))?;
    // next round starts from the new live set
    stale.extend(delete_requested.iter().cloned());
    *initial = expect.into_iter().collect();
    Ok(())
}

fn run_case(rep: &mut Report, case: u64) {
    let cfg = rep.cfg.clone();
    let mut rng = derive(cfg.seed, &[hash_str("conc"), case]);
    ledger::reset();
    trace::set_ctx("C10");
    let mode = cfg.extra_str("mode", "controlled");
    let controlled = mode == "controlled";
    let mut hist: Vec<String> = Vec::new();
    let mut world = World::new();
    world.register::<Tag>();
    // pre-seed: some live entities and a free list with 0..3 entries (few keys, many threads)
    let n0 = rng.range(0, 5);
    let nfree = if cfg.prop == "C17" { rng.range(1, 24) } else { rng.range(0, 3) };
    let mut initial: Vec<Entity> = world.create_iter().take(n0 + nfree).collect();
    let mut stale: Vec<Entity> = Vec::new();
    for _ in 0..nfree {
        let k = rng.below(initial.len());
        let e = initial.remove(k);
        world.delete_entity(e).unwrap();
        stale.push(e);
    }
    hist.push(format!("setup: {} live, {} free-list entries", initial.len(), nfree));
    let rounds = rng.range(1, 3);
    let mut action_id = 0u64;
    let mut failure: Option<Fail> = None;
    let mut sig = Sig::default();
    let mut midop_overlaps = 0u64;
    let shared = Arc::new(Shared { exec_log: Mutex::new(Vec::new()) });
    'rounds: for round in 0..rounds {
        let nthreads = if controlled { rng.range(2, 4) } else { rng.range(2, cfg.extra_u64("max_threads", 12) as usize) };
        let nops = if controlled { rng.range(1, cfg.ops.min(6).max(1)) } else { rng.range(cfg.ops / 2 + 1, cfg.ops.max(2)) };
        let flood = !controlled && rng.chance(1, 16);
        let progs: Vec<Vec<Op>> = if flood {
            // a busy frame: thousands of queued lazy actions (nothing may be dropped or left over)
            let per = rng.range(1200, 3000);
            (0..nthreads)
                .map(|_| {
                    (0..per)
                        .map(|_| {
                            action_id += 1;
                            Op::LazyExec(action_id)
                        })
                        .collect()
                })
                .collect()
        } else {
            (0..nthreads).map(|_| gen_ops(&mut rng, nops, &mut action_id, true)).collect()
        };
        if flood {
            rep.bump("lazy_flood_rounds", 1);
        }
        if flood {
            hist.push(format!("round {}: {} threads x {} queued lazy actions each", round, nthreads, progs[0].len()));
        } else {
            hist.push(format!("round {}: {} threads x {} ops: {:?}", round, nthreads, nops, progs));
        }
        trace::push(hist.last().unwrap());
        let mut records: Vec<Vec<Rec>> = Vec::new();
        let sched_trace: Vec<(u16, u16)>;
        let snap0 = world.entities().verif_snapshot();
        let (free_at_start, max_id_at_start) = (snap0.cache.len(), snap0.max_id);
        if controlled {
            let sched = Arc::new(Sched::new(nthreads, Rng(rng.next()), [1u32, 2, 3, 6][rng.below(4)]));
            *SCHED.lock().unwrap() = Some(sched.clone());
            specs::verif::set_yield_hook(Some(controlled_hook));
            let res: Vec<std::thread::Result<Vec<Rec>>> = std::thread::scope(|s| {
                let handles: Vec<_> = (0..nthreads)
                    .map(|t| {
                        let sched = sched.clone();
                        let w = &world;
                        let sh = shared.clone();
                        let ops = &progs[t];
                        let ini = &initial;
                        let st = &stale;
                        s.spawn(move || {
                            TID.with(|x| x.set(Some(t)));
                            let _g = FinishGuard(sched.clone(), t);
                            sched.wait_turn(t);
                            let sc = sched.clone();
                            worker(w, &sh, ops, ini, st, &move |p| sc.yield_point(t, p))
                        })
                    })
                    .collect();
                sched.kick();
                handles.into_iter().map(|h| h.join()).collect()
            });
            specs::verif::set_yield_hook(None);
            *SCHED.lock().unwrap() = None;
            sched_trace = sched.inner.lock().unwrap().trace.clone();
            for r in res {
                match r {
                    Ok(v) => records.push(v),
                    Err(e) => {
                        let m = e.downcast_ref::<String>().cloned().or_else(|| e.downcast_ref::<&str>().map(|s| s.to_string())).unwrap_or_default();
                        failure = Some(("C10", format!("a worker thread panicked: {}", m)));
                        break 'rounds;
                    }
                }
            }
        } else {
            STRESS_SEED.store(rng.next(), Ordering::Relaxed);
            specs::verif::set_yield_hook(Some(stress_hook));
            let res: Vec<std::thread::Result<Vec<Rec>>> = std::thread::scope(|s| {
                let handles: Vec<_> = (0..nthreads)
                    .map(|t| {
                        let w = &world;
                        let sh = shared.clone();
                        let ops = &progs[t];
                        let ini = &initial;
                        let st = &stale;
                        s.spawn(move || worker(w, &sh, ops, ini, st, &|_p| {}))
                    })
                    .collect();
                handles.into_iter().map(|h| h.join()).collect()
            });
            specs::verif::set_yield_hook(None);
            sched_trace = Vec::new();
            for r in res {
                match r {
                    Ok(v) => records.push(v),
                    Err(e) => {
                        let m = e.downcast_ref::<String>().cloned().or_else(|| e.downcast_ref::<&str>().map(|s| s.to_string())).unwrap_or_default();
                        failure = Some(("C10", format!("a worker thread panicked: {}", m)));
                        break 'rounds;
                    }
                }
            }
        }
        // distinct interleavings + mid-operation overlap detection
        for w in sched_trace.windows(2) {
            let (a, pa) = w[0];
            let (b, pb) = w[1];
            if a != b && pa < 100 && pb < 100 {
                midop_overlaps += 1;
            }
        }
        for (t, p) in &sched_trace {
            sig.push(((*t as u64) << 16) | *p as u64);
        }
        let r = judge_round(rep, &cfg.prop, &mut world, &shared, &records, &mut initial, &mut stale, free_at_start, max_id_at_start);
        if let Err(f) = r {
            failure = Some(f);
            break;
        }
    }
    drop(world);
    rep.cases_run += 1;
    rep.bump("midop_context_switches_into_another_midop_thread", midop_overlaps);
    rep.bump(&format!("cases_mode_{}", mode), 1);
    let nontrivial = if controlled { midop_overlaps >= 1 } else { true };
    if nontrivial && failure.is_none() {
        rep.distinct(sig.0 ^ mix(case));
    }
    if nontrivial && rep.samples.len() < 2 {
        rep.sample(serde_json::json!({"case": case, "mode": mode, "trace": hist.iter().take(6).collect::<Vec<_>>()}));
    }
    if let Some((p, msg)) = failure {
        let s = format!("{}:{}", p, msg.split(':').next().unwrap_or(""));
        rep.violation(p, case, hist.len(), msg, s, &hist);
    }
    let _ = ledger::take_faults();
}

/// Small programs whose scheduler-visible interleavings are enumerated exhaustively.
fn enum_programs() -> Vec<(&'static str, Vec<Vec<Op>>)> {
    vec![
        ("create|create", vec![vec![Op::Create], vec![Op::Create]]),
        ("create,delete_own|create", vec![vec![Op::Create, Op::DeleteOwn(0)], vec![Op::Create]]),
        ("delete_initial|create", vec![vec![Op::DeleteInitial(0)], vec![Op::Create]]),
        ("create|delete_initial,is_alive", vec![vec![Op::Create], vec![Op::DeleteInitial(0), Op::IsAliveInitial(0)]]),
        ("create_iter2|create", vec![vec![Op::CreateIter(2)], vec![Op::Create]]),
        ("lazy_exec,create|lazy_create", vec![vec![Op::LazyExec(1), Op::Create], vec![Op::LazyCreate(0xC0DE_0002)]]),
        ("create,join|create", vec![vec![Op::Create, Op::Join], vec![Op::Create]]),
        ("build_entity|create,is_alive_stale", vec![vec![Op::BuildEntity], vec![Op::Create, Op::IsAliveStale(0)]]),
        ("create|create|create", vec![vec![Op::Create], vec![Op::Create], vec![Op::Create]]),
        ("create|create|delete_initial", vec![vec![Op::Create], vec![Op::Create], vec![Op::DeleteInitial(0)]]),
    ]
}

/// mode `enumerate`: depth-first enumeration of every schedule the token-passing scheduler can produce
/// for one small program on one initial allocator state (case = program x setup).
fn run_enumerate(rep: &mut Report, case: u64) {
    let cfg = rep.cfg.clone();
    trace::set_ctx("C10");
    let progs = enum_programs();
    let setups: [(usize, usize); 3] = [(1, 0), (1, 1), (2, 2)];
    let (name, prog) = &progs[(case as usize) % progs.len()];
    let (n0, nfree) = setups[(case as usize / progs.len()) % setups.len()];
    let three = prog.len() >= 3;
    if three && cfg.extra_u64("three", 0) == 0 {
        rep.cases_run += 1;
        rep.bump("programs_skipped_in_this_tier", 1);
        return;
    }
    let cap = cfg.extra_u64("cap", 20000);
    let mut prefix: Vec<usize> = Vec::new();
    let mut count = 0u64;
    let mut exhaustive = false;
    let mut failure: Option<(Fail, Vec<String>)> = None;
    let mut max_decisions = 0usize;
    loop {
        ledger::reset();
        let mut world = World::new();
        world.register::<Tag>();
        let mut initial: Vec<Entity> = world.create_iter().take(n0 + nfree).collect();
        let mut stale: Vec<Entity> = Vec::new();
        for _ in 0..nfree {
            let e = initial.pop().unwrap();
            world.delete_entity(e).unwrap();
            stale.push(e);
        }
        let shared = Arc::new(Shared { exec_log: Mutex::new(Vec::new()) });
        let nthreads = prog.len();
        let sched = Arc::new(Sched::new(nthreads, Rng(1), 1));
        sched.inner.lock().unwrap().forced = Some(Forced { prefix: prefix.clone(), pos: 0, record: Vec::new() });
        *SCHED.lock().unwrap() = Some(sched.clone());
        specs::verif::set_yield_hook(Some(controlled_hook));
        let snap0 = world.entities().verif_snapshot();
        let res: Vec<std::thread::Result<Vec<Rec>>> = std::thread::scope(|s| {
            let handles: Vec<_> = (0..nthreads)
                .map(|t| {
                    let sched = sched.clone();
                    let w = &world;
                    let sh = shared.clone();
                    let ops = &prog[t];
                    let ini = &initial;
                    let st = &stale;
                    s.spawn(move || {
                        TID.with(|x| x.set(Some(t)));
                        let _g = FinishGuard(sched.clone(), t);
                        sched.wait_turn(t);
                        let sc = sched.clone();
                        worker(w, &sh, ops, ini, st, &move |p| sc.yield_point(t, p))
                    })
                })
                .collect();
            sched.kick();
            handles.into_iter().map(|h| h.join()).collect()
        });
        specs::verif::set_yield_hook(None);
        *SCHED.lock().unwrap() = None;
        let (record, tr) = {
            let g = sched.inner.lock().unwrap();
            (g.forced.as_ref().unwrap().record.clone(), g.trace.clone())
        };
        count += 1;
        max_decisions = max_decisions.max(record.len());
        let mut sig = Sig::default();
        for (t, p) in &tr {
            sig.push(((*t as u64) << 16) | *p as u64);
        }
        rep.distinct(sig.0 ^ mix(case));
        let describe = |tr: &[(u16, u16)]| -> Vec<String> {
            vec![format!("program {} on {} live / {} free-list entries", name, n0, nfree), format!("schedule (thread, point): {:?}", tr)]
        };
        let mut records = Vec::new();
        let mut panicked = None;
        for r in res {
            match r {
                Ok(v) => records.push(v),
                Err(e) => panicked = Some(e.downcast_ref::<String>().cloned().or_else(|| e.downcast_ref::<&str>().map(|s| s.to_string())).unwrap_or_default()),
            }
        }
        if let Some(m) = panicked {
            failure = Some((("C10", format!("a worker thread panicked: {}", m)), describe(&tr)));
            break;
        }
        if let Err(f) = judge_round(rep, &cfg.prop, &mut world, &shared, &records, &mut initial, &mut stale, snap0.cache.len(), snap0.max_id) {
            failure = Some((f, describe(&tr)));
            break;
        }
        // next schedule in depth-first order
        match (0..record.len()).rev().find(|i| record[*i].0 + 1 < record[*i].1) {
            Some(i) => {
                prefix = record[..i].iter().map(|r| r.0).collect();
                prefix.push(record[i].0 + 1);
            }
            None => {
                exhaustive = true;
                break;
            }
        }
        if count >= cap {
            break;
        }
    }
    rep.cases_run += 1;
    rep.bump("schedules_enumerated", count);
    rep.max("max_scheduling_decisions_in_one_schedule", max_decisions as u64);
    if exhaustive {
        rep.bump("programs_enumerated_exhaustively", 1);
    } else if failure.is_none() {
        rep.bump("programs_capped_before_exhaustion", 1);
    }
    rep.op(name);
    if rep.samples.len() < 3 {
        rep.sample(serde_json::json!({"program": name, "live": n0, "free_list": nfree, "schedules": count, "exhaustive": exhaustive}));
    }
    if let Some(((p, msg), hist)) = failure {
        let s = format!("{}:{}", p, msg.split(':').next().unwrap_or(""));
        rep.violation(p, case, count as usize, msg, s, &hist);
    }
}

pub fn run(rep: &mut Report) {
    let enumerate = rep.cfg.extra_str("mode", "controlled") == "enumerate";
    for case in rep.cfg.my_cases() {
        if rep.full() {
            break;
        }
        if enumerate {
            crate::report::guarded(rep, case, |rep| run_enumerate(rep, case));
        } else {
            crate::report::guarded(rep, case, |rep| run_case(rep, case));
        }
    }
    specs::verif::set_yield_hook(None);
}

#[allow(dead_code)]
fn _unused(_: &dyn Driver) {}
