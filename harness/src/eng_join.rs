//! Engine `join` (C06): macro-generated join shapes of arity 1..16 mixing every
//! member kind, run over hostile membership assignments and compared with set
//! algebra on the model. Items identify themselves (component ids), so order,
//! multiplicity and "own components" are checked per item.

use std::collections::{BTreeMap, BTreeSet};
use std::sync::atomic::{AtomicU64, Ordering};

use specs::hibitset::{AtomicBitSet, BitSetAnd, BitSetNot, BitSetOr, BitSetXor};
use specs::prelude::*;
use specs::storage::{
    AccessMut, FlaggedAccessMut, PairedStorageRead, PairedStorageWriteExclusive, PairedStorageWriteShared,
    SharedGetMutStorage,
};
use specs::{BitSet, ChangeSet, LendJoin};

use crate::comps::*;
use crate::ledger::{self, Snap, ZST_SNAP};
use crate::model::Fail;
use crate::report::{trace, Report};
use crate::rng::{derive, hash_str, Rng, Sig};

static NONCE: AtomicU64 = AtomicU64::new(0x7000_0000);
/// A dead (stale) handle that restricted-view items are asked to look up while a join runs; any hit is recorded.
static STALE_PROBE: std::sync::Mutex<Option<Entity>> = std::sync::Mutex::new(None);
static STALE_HIT: std::sync::Mutex<Option<String>> = std::sync::Mutex::new(None);
fn stale_probe() -> Option<Entity> {
    *STALE_PROBE.lock().unwrap_or_else(|e| e.into_inner())
}
fn stale_hit(s: String) {
    *STALE_HIT.lock().unwrap_or_else(|e| e.into_inner()) = Some(s);
}
fn nonce() -> u64 {
    NONCE.fetch_add(1, Ordering::Relaxed)
}

#[derive(Clone, Debug, PartialEq, Eq)]
pub enum Slot {
    Ent(Entity),
    Idx(u32),
    Unit,
    Comp(Snap),
    /// component handed out mutably and overwritten with a fresh payload
    Written(Snap),
    /// component moved out
    Taken(Snap),
    Opt(Option<Box<Slot>>),
    Amt(u64),
    AmtWritten(u64),
}

#[derive(Clone, Copy, Debug, Default, PartialEq, Eq)]
pub struct Amt(pub u64);
impl std::ops::AddAssign for Amt {
    fn add_assign(&mut self, o: Amt) {
        self.0 = self.0.wrapping_mul(31).wrapping_add(o.0);
    }
}

pub trait Norm {
    fn norm(self) -> Slot;
}
impl Norm for Entity {
    fn norm(self) -> Slot {
        Slot::Ent(self)
    }
}
impl Norm for u32 {
    fn norm(self) -> Slot {
        Slot::Idx(self)
    }
}
impl Norm for () {
    fn norm(self) -> Slot {
        Slot::Unit
    }
}
impl Norm for ((), ()) {
    fn norm(self) -> Slot {
        Slot::Unit
    }
}
impl<T: Norm> Norm for Option<T> {
    fn norm(self) -> Slot {
        Slot::Opt(self.map(|t| Box::new(t.norm())))
    }
}
impl<'a, C: Comp> Norm for &'a C {
    fn norm(self) -> Slot {
        Slot::Comp(self.observe())
    }
}
impl<'a, C: Comp> Norm for &'a mut C {
    fn norm(self) -> Slot {
        self.set_payload(nonce());
        Slot::Written(self.observe())
    }
}
impl<'a, A, C> Norm for FlaggedAccessMut<'a, A, C>
where
    A: AccessMut<Target = C>,
    C: Comp,
{
    fn norm(mut self) -> Slot {
        self.access_mut().set_payload(nonce());
        Slot::Written(self.observe())
    }
}
impl<'a, C: Comp> Norm for PairedStorageRead<'a, C> {
    fn norm(self) -> Slot {
        if let Some(h) = stale_probe() {
            if let Some(c) = self.get_other(h) {
                stale_hit(format!("get_other({:?}) on an item of a restricted {} join returned {:?} for a dead handle", h, C::NAME, c.observe()));
            }
        }
        Slot::Comp(self.get().observe())
    }
}
impl<'a, C: Comp> Norm for PairedStorageWriteShared<'a, C>
where
    C::Storage: SharedGetMutStorage<C>,
{
    fn norm(mut self) -> Slot {
        let mut a = self.get_mut();
        a.access_mut().set_payload(nonce());
        Slot::Written(a.observe())
    }
}
impl<'a, C: Comp> Norm for PairedStorageWriteExclusive<'a, C> {
    fn norm(mut self) -> Slot {
        if let Some(h) = stale_probe() {
            if let Some(c) = self.get_other(h) {
                stale_hit(format!("get_other({:?}) on an item of a restricted {} lending join returned {:?} for a dead handle", h, C::NAME, c.observe()));
            }
            if let Some(c) = self.get_other_mut(h) {
                stale_hit(format!("get_other_mut({:?}) on an item of a restricted {} lending join returned {:?} for a dead handle", h, C::NAME, c.observe()));
            }
        }
        let mut a = self.get_mut();
        a.access_mut().set_payload(nonce());
        Slot::Written(a.observe())
    }
}
impl<'a> Norm for &'a Amt {
    fn norm(self) -> Slot {
        Slot::Amt(self.0)
    }
}
impl<'a> Norm for &'a mut Amt {
    fn norm(self) -> Slot {
        self.0 = nonce();
        Slot::AmtWritten(self.0)
    }
}
impl Norm for Amt {
    fn norm(self) -> Slot {
        Slot::Amt(self.0)
    }
}
macro_rules! norm_by_value {
    ($($c:ty),*) => { $( impl Norm for $c { fn norm(self) -> Slot { self.returned(); Slot::Taken(self.snap()) } } )* };
}
norm_by_value!(CVec, CDense, CDefault, CHash, CBTree, CNull, CFlagVec, CFlagDense, CVec2, CDense2);

pub trait NormAll {
    fn norm_all(self) -> Vec<Slot>;
}
macro_rules! norm_tuple {
    ($($t:ident),+) => {
        impl<$($t: Norm),+> NormAll for ($($t,)+) {
            #[allow(non_snake_case)]
            fn norm_all(self) -> Vec<Slot> {
                let ($($t,)+) = self;
                vec![$($t.norm()),+]
            }
        }
    };
}
norm_tuple!(A);
norm_tuple!(A, B);
norm_tuple!(A, B, C);
norm_tuple!(A, B, C, D);
norm_tuple!(A, B, C, D, E);
norm_tuple!(A, B, C, D, E, F);
norm_tuple!(A, B, C, D, E, F, G);
norm_tuple!(A, B, C, D, E, F, G, H);
norm_tuple!(A, B, C, D, E, F, G, H, I);
norm_tuple!(A, B, C, D, E, F, G, H, I, J);
norm_tuple!(A, B, C, D, E, F, G, H, I, J, K);
norm_tuple!(A, B, C, D, E, F, G, H, I, J, K, L);
norm_tuple!(A, B, C, D, E, F, G, H, I, J, K, L, M);
norm_tuple!(A, B, C, D, E, F, G, H, I, J, K, L, M, N);
norm_tuple!(A, B, C, D, E, F, G, H, I, J, K, L, M, N, O);
norm_tuple!(A, B, C, D, E, F, G, H, I, J, K, L, M, N, O, P);

#[derive(Default)]
pub struct Aux {
    pub b0: BitSet,
    pub b1: BitSet,
    pub b2: BitSet,
    pub a0: AtomicBitSet,
    pub cs0: ChangeSet<Amt>,
    pub cs1: ChangeSet<Amt>,
    pub cs2: ChangeSet<Amt>,
}

#[derive(Clone, Copy, Debug, PartialEq, Eq)]
pub enum Mem {
    Ent,
    Rd(&'static str),
    Wr(&'static str),
    Not(&'static str),
    MaybeRd(&'static str),
    MaybeWr(&'static str),
    /// `(!&storage).maybe()`: an optional member around a negated storage
    MaybeNot(&'static str),
    /// `(!&a, !&b).maybe()`: an optional member around a tuple made of negations only
    MaybeNot2(&'static str, &'static str),
    RRd(&'static str),
    RWr(&'static str),
    Drain(&'static str),
    Bits(&'static str),
    BAnd(&'static str, &'static str),
    BOr(&'static str, &'static str),
    BXor(&'static str, &'static str),
    BNot(&'static str),
    Cs(&'static str),
    CsMut(&'static str),
    CsVal(&'static str),
}

#[derive(Clone, Copy, Debug, PartialEq, Eq)]
pub enum Mode {
    Join,
    LendNext,
    LendForEach,
    LendGet,
}

#[derive(Default)]
pub struct ShapeOut {
    pub items: Vec<Vec<Slot>>,
    /// (entity, result of get(entity), result of get_unchecked(index))
    pub probes: Vec<(Entity, Option<Vec<Slot>>, Option<Vec<Slot>>)>,
}

macro_rules! bind {
    (ent, $v:ident, $w:ident) => { let $v = $w.entities(); };
    (rd, $v:ident, $w:ident, $c:ty) => { let $v = $w.read_storage::<$c>(); };
    (not, $v:ident, $w:ident, $c:ty) => { let $v = $w.read_storage::<$c>(); };
    (mrd, $v:ident, $w:ident, $c:ty) => { let $v = $w.read_storage::<$c>(); };
    (mnot, $v:ident, $w:ident, $c:ty) => { let $v = $w.read_storage::<$c>(); };
    (mnot2, $v:ident, $w:ident, $c:ty, $d:ty) => { let $v = ($w.read_storage::<$c>(), $w.read_storage::<$d>()); };
    (rrd, $v:ident, $w:ident, $c:ty) => { let $v = $w.read_storage::<$c>(); };
    (wr, $v:ident, $w:ident, $c:ty) => { let mut $v = $w.write_storage::<$c>(); };
    (mwr, $v:ident, $w:ident, $c:ty) => { let mut $v = $w.write_storage::<$c>(); };
    (rwr, $v:ident, $w:ident, $c:ty) => { let mut $v = $w.write_storage::<$c>(); };
    (drain, $v:ident, $w:ident, $c:ty) => { let mut $v = $w.write_storage::<$c>(); };
    ($other:ident, $v:ident, $w:ident $(, $a:ident)*) => {};
}
macro_rules! mexpr {
    (ent, $v:ident, $aux:ident) => { &$v };
    (rd, $v:ident, $aux:ident, $c:ty) => { &$v };
    (wr, $v:ident, $aux:ident, $c:ty) => { &mut $v };
    (not, $v:ident, $aux:ident, $c:ty) => { !&$v };
    (mrd, $v:ident, $aux:ident, $c:ty) => { (&$v).maybe() };
    (mnot, $v:ident, $aux:ident, $c:ty) => { (!&$v).maybe() };
    (mnot2, $v:ident, $aux:ident, $c:ty, $d:ty) => { (!&$v.0, !&$v.1).maybe() };
    (mwr, $v:ident, $aux:ident, $c:ty) => { (&mut $v).maybe() };
    (rrd, $v:ident, $aux:ident, $c:ty) => { &$v.restrict() };
    (rwr, $v:ident, $aux:ident, $c:ty) => { &mut $v.restrict_mut() };
    (drain, $v:ident, $aux:ident, $c:ty) => { $v.drain() };
    (bits, $v:ident, $aux:ident, $b:ident) => { &$aux.$b };
    (abits, $v:ident, $aux:ident, $b:ident) => { &$aux.$b };
    (band, $v:ident, $aux:ident, $a:ident, $b:ident) => { BitSetAnd(&$aux.$a, &$aux.$b) };
    (bor, $v:ident, $aux:ident, $a:ident, $b:ident) => { BitSetOr(&$aux.$a, &$aux.$b) };
    (bxor, $v:ident, $aux:ident, $a:ident, $b:ident) => { BitSetXor(&$aux.$a, &$aux.$b) };
    (bnot, $v:ident, $aux:ident, $a:ident) => { BitSetNot(&$aux.$a) };
    (cs, $v:ident, $aux:ident, $a:ident) => { &$aux.$a };
    (csm, $v:ident, $aux:ident, $a:ident) => { &mut $aux.$a };
    (csv, $v:ident, $aux:ident, $a:ident) => { std::mem::take(&mut $aux.$a) };
}
macro_rules! mdesc {
    (ent) => { Mem::Ent };
    (rd, $c:ty) => { Mem::Rd(<$c as Comp>::NAME) };
    (wr, $c:ty) => { Mem::Wr(<$c as Comp>::NAME) };
    (not, $c:ty) => { Mem::Not(<$c as Comp>::NAME) };
    (mrd, $c:ty) => { Mem::MaybeRd(<$c as Comp>::NAME) };
    (mnot, $c:ty) => { Mem::MaybeNot(<$c as Comp>::NAME) };
    (mnot2, $c:ty, $d:ty) => { Mem::MaybeNot2(<$c as Comp>::NAME, <$d as Comp>::NAME) };
    (mwr, $c:ty) => { Mem::MaybeWr(<$c as Comp>::NAME) };
    (rrd, $c:ty) => { Mem::RRd(<$c as Comp>::NAME) };
    (rwr, $c:ty) => { Mem::RWr(<$c as Comp>::NAME) };
    (drain, $c:ty) => { Mem::Drain(<$c as Comp>::NAME) };
    (bits, $b:ident) => { Mem::Bits(stringify!($b)) };
    (abits, $b:ident) => { Mem::Bits(stringify!($b)) };
    (band, $a:ident, $b:ident) => { Mem::BAnd(stringify!($a), stringify!($b)) };
    (bor, $a:ident, $b:ident) => { Mem::BOr(stringify!($a), stringify!($b)) };
    (bxor, $a:ident, $b:ident) => { Mem::BXor(stringify!($a), stringify!($b)) };
    (bnot, $a:ident) => { Mem::BNot(stringify!($a)) };
    (cs, $a:ident) => { Mem::Cs(stringify!($a)) };
    (csm, $a:ident) => { Mem::CsMut(stringify!($a)) };
    (csv, $a:ident) => { Mem::CsVal(stringify!($a)) };
}

/// flags: full = all four modes; once = join + lend for_each in one expression (temporaries /
/// non-repeatable members); lend = lending modes only (members without shared mutable access)
macro_rules! shape {
    ($name:ident, full; $( $v:ident : $kind:ident $( ( $($arg:tt),* ) )? ),+ ) => {
        #[allow(unused_mut, unused_variables)]
        fn $name(w: &World, aux: &mut Aux, mode: Mode, probes: &[Entity]) -> ShapeOut {
            $( bind!($kind, $v, w $(, $($arg),*)? ); )+
            let mut out = ShapeOut::default();
            match mode {
                Mode::Join => {
                    out.items = ( $( mexpr!($kind, $v, aux $(, $($arg),*)?), )+ ).join().map(|t| t.norm_all()).collect();
                }
                Mode::LendNext => {
                    let mut j = ( $( mexpr!($kind, $v, aux $(, $($arg),*)?), )+ ).lend_join();
                    while let Some(t) = j.next() {
                        out.items.push(t.norm_all());
                    }
                }
                Mode::LendForEach => {
                    let items = &mut out.items;
                    ( $( mexpr!($kind, $v, aux $(, $($arg),*)?), )+ ).lend_join().for_each(|t| items.push(t.norm_all()));
                }
                Mode::LendGet => {
                    let ents2 = w.entities();
                    let mut j = ( $( mexpr!($kind, $v, aux $(, $($arg),*)?), )+ ).lend_join();
                    for e in probes {
                        let a = j.get(*e, &ents2).map(|t| t.norm_all());
                        let b = j.get_unchecked(e.id()).map(|t| t.norm_all());
                        out.probes.push((*e, a, b));
                    }
                }
            }
            out
        }
    };
    ($name:ident, once; $( $v:ident : $kind:ident $( ( $($arg:tt),* ) )? ),+ ) => {
        #[allow(unused_mut, unused_variables)]
        fn $name(w: &World, aux: &mut Aux, mode: Mode, _probes: &[Entity]) -> ShapeOut {
            $( bind!($kind, $v, w $(, $($arg),*)? ); )+
            let mut out = ShapeOut::default();
            match mode {
                Mode::LendForEach | Mode::LendNext => {
                    let items = &mut out.items;
                    ( $( mexpr!($kind, $v, aux $(, $($arg),*)?), )+ ).lend_join().for_each(|t| items.push(t.norm_all()));
                }
                _ => {
                    out.items = ( $( mexpr!($kind, $v, aux $(, $($arg),*)?), )+ ).join().map(|t| t.norm_all()).collect();
                }
            }
            out
        }
    };
    ($name:ident, lend; $( $v:ident : $kind:ident $( ( $($arg:tt),* ) )? ),+ ) => {
        #[allow(unused_mut, unused_variables)]
        fn $name(w: &World, aux: &mut Aux, mode: Mode, probes: &[Entity]) -> ShapeOut {
            $( bind!($kind, $v, w $(, $($arg),*)? ); )+
            let mut out = ShapeOut::default();
            match mode {
                Mode::LendGet => {
                    let ents2 = w.entities();
                    let mut j = ( $( mexpr!($kind, $v, aux $(, $($arg),*)?), )+ ).lend_join();
                    for e in probes {
                        let a = j.get(*e, &ents2).map(|t| t.norm_all());
                        let b = j.get_unchecked(e.id()).map(|t| t.norm_all());
                        out.probes.push((*e, a, b));
                    }
                }
                Mode::LendForEach => {
                    let items = &mut out.items;
                    ( $( mexpr!($kind, $v, aux $(, $($arg),*)?), )+ ).lend_join().for_each(|t| items.push(t.norm_all()));
                }
                _ => {
                    let mut j = ( $( mexpr!($kind, $v, aux $(, $($arg),*)?), )+ ).lend_join();
                    while let Some(t) = j.next() {
                        out.items.push(t.norm_all());
                    }
                }
            }
            out
        }
    };
}

type ShapeFn = fn(&World, &mut Aux, Mode, &[Entity]) -> ShapeOut;
pub struct ShapeDef {
    pub name: &'static str,
    pub f: ShapeFn,
    pub mems: Vec<Mem>,
    /// 0 = full, 1 = once, 2 = lend
    pub flag: u8,
}
macro_rules! defs {
    ( $( $name:ident, $flag:ident; $( $v:ident : $kind:ident $( ( $($arg:tt),* ) )? ),+ ; )+ ) => {
        $( shape!($name, $flag; $( $v : $kind $( ( $($arg),* ) )? ),+ ); )+
        pub fn shapes() -> Vec<ShapeDef> {
            vec![ $( ShapeDef {
                name: stringify!($name),
                f: $name,
                mems: vec![ $( mdesc!($kind $(, $($arg),*)?) ),+ ],
                flag: flagnum!($flag),
            } ),+ ]
        }
    };
}
macro_rules! flagnum {
    (full) => { 0 };
    (once) => { 1 };
    (lend) => { 2 };
}

defs! {
    a1_rd, full; a: rd(CVec);
    a1_wr, full; a: wr(CDense);
    a1_ent, full; e: ent;
    a1_bits, full; b: bits(b0);
    a1_abits, full; b: abits(a0);
    a1_band, full; b: band(b0, b1);
    a1_bor, full; b: bor(b0, b1);
    a1_bxor, once; b: bxor(b0, b1);
    a1_cs, full; c: cs(cs0);
    a1_csm, full; c: csm(cs1);
    a1_csv, once; c: csv(cs2);
    a1_drain, once; d: drain(CVec);
    a1_rrd, once; r: rrd(CHash);
    a1_rwr, once; r: rwr(CBTree);
    a2_ent_rd, full; e: ent, a: rd(CDefault);
    a2_ent_not, full; e: ent, a: not(CHash);
    a2_bits_not, full; b: bits(b1), a: not(CVec);
    a2_rd_bnot, full; a: rd(CDense), b: bnot(b2);
    a2_wr_maybe, full; a: wr(CBTree), m: mrd(CNull);
    a2_ent_mwr, full; e: ent, m: mwr(CFlagVec);
    a2_rd_mnot, full; a: rd(CVec), m: mnot(CDense);
    a3_ent_mnot2, full; e: ent, m: mnot2(CHash, CVec2), a: mrd(CBTree);
    a2_drain_ent, once; d: drain(CDense), e: ent;
    a2_drain_bits, once; d: drain(CHash), x: bits(b0);
    a3_drain_rd, once; e: ent, d: drain(CBTree), a: rd(CVec);
    a3_drain_not, once; d: drain(CVec2), n: not(CDense), x: bor(b1, b2);
    a2_csv_rd, once; c: csv(cs2), a: rd(CVec2);
    a2_rwr_ent, once; r: rwr(CFlagDense), e: ent;
    a2_deref_wr, lend; e: ent, a: wr(CDerefVec);
    a3_mix, full; e: ent, a: rd(CVec), b: wr(CDense);
    a3_null, full; a: rd(CNull), b: wr(CFlagNull), e: ent;
    a3_sets, full; x: bits(b0), y: bor(b1, b2), a: rd(CHash);
    a3_cs, full; c: cs(cs0), m: csm(cs1), a: wr(CVec2);
    a3_rr, once; r: rrd(CVec), s: rwr(CDense2), e: ent;
    a3_deref, lend; a: wr(CDerefDense), b: mwr(CDerefHash), e: ent;
    a4, full; e: ent, a: rd(CVec), b: wr(CHash), n: not(CBTree);
    a4_maybe, full; e: ent, a: mrd(CVec), b: mwr(CDense), c: rd(CDefault);
    a5, full; a: rd(CVec), b: rd(CDense), c: wr(CDefault), d: wr(CHash), e: ent;
    a6, full; e: ent, a: wr(CVec), b: rd(CDense2), c: not(CNull), d: mrd(CFlagHash), x: bits(b0);
    a7, full; a: rd(CFlagVec), b: rd(CFlagDense), c: rd(CFlagDefault), d: wr(CFlagHash), f: wr(CFlagBTree), e: ent, x: bnot(b1);
    a8, full; e: ent, a: rd(CVec), b: rd(CDense), c: rd(CDefault), d: rd(CHash), f: rd(CBTree), g: wr(CVec2), h: wr(CDense2);
    a9, full; a: mrd(CVec), b: mrd(CDense), c: mwr(CDefault), d: rd(CHash), e: ent, f: not(CBTree), g: bits(b2), h: cs(cs0), i: wr(CVec2);
    a10, full; e: ent, a: rd(CVec), b: wr(CDense), c: rd(CDefault), d: wr(CHash), f: rd(CBTree), g: wr(CNull), h: rd(CFlagVec), i: wr(CFlagDense), j: rd(CVec2);
    a11, full; a: rd(CVec), b: rd(CDense), c: rd(CDefault), d: rd(CHash), f: rd(CBTree), g: rd(CNull), h: rd(CFlagVec), i: rd(CFlagDense), j: rd(CVec2), k: rd(CDense2), e: ent;
    a12, full; e: ent, a: wr(CVec), b: wr(CDense), c: wr(CDefault), d: wr(CHash), f: wr(CBTree), g: wr(CNull), h: wr(CFlagVec), i: wr(CFlagDense), j: wr(CVec2), k: wr(CDense2), l: wr(CFlagHash);
    a13, full; e: ent, a: mrd(CVec), b: rd(CDense), c: mrd(CDefault), d: rd(CHash), f: mrd(CBTree), g: not(CNull), h: mwr(CFlagVec), i: rd(CFlagDense), j: mrd(CVec2), k: wr(CDense2), l: bits(b0), m: bor(b1, b2);
    a14, full; a: rd(CVec), b: rd(CDense), c: rd(CDefault), d: rd(CHash), f: rd(CBTree), g: mrd(CNull), h: rd(CFlagVec), i: rd(CFlagDense), j: rd(CVec2), k: rd(CDense2), l: rd(CFlagHash), m: rd(CFlagBTree), n: rd(CFlagDefault), e: ent;
    a15, full; e: ent, a: wr(CVec), b: rd(CDense), c: wr(CDefault), d: rd(CHash), f: wr(CBTree), g: not(CNull), h: wr(CFlagVec), i: rd(CFlagDense), j: wr(CVec2), k: rd(CDense2), l: wr(CFlagHash), m: rd(CFlagBTree), n: mwr(CFlagDefault), o: bits(b0);
    a16, full; e: ent, a: rd(CVec), b: wr(CDense), c: rd(CDefault), d: wr(CHash), f: rd(CBTree), g: mrd(CNull), h: rd(CFlagVec), i: wr(CFlagDense), j: rd(CVec2), k: wr(CDense2), l: rd(CFlagHash), m: wr(CFlagBTree), n: rd(CFlagDefault), o: bnot(b1), p: cs(cs0);
    a16_lend, lend; e: ent, a: wr(CDerefVec), b: wr(CDerefDense), c: rd(CDefault), d: mwr(CDerefHash), f: rd(CBTree), g: rd(CNull), h: rd(CFlagVec), i: wr(CFlagDense), j: rd(CVec2), k: wr(CDense2), l: rd(CFlagHash), m: wr(CFlagBTree), n: rd(CFlagDefault), o: bits(b2), p: not(CHash);
}

pub const STORAGES: [&str; 19] = [
    "CVec", "CDense", "CDefault", "CHash", "CBTree", "CNull", "CFlagVec", "CFlagDense", "CFlagDefault", "CFlagHash",
    "CFlagBTree", "CDerefVec", "CDerefDense", "CDerefDefault", "CDerefHash", "CDerefBTree", "CVec2", "CDense2", "CFlagNull",
];

fn driver(name: &str) -> Box<dyn Driver> {
    match name {
        "CVec" => Drv::<CVec>::boxed(),
        "CDense" => Drv::<CDense>::boxed(),
        "CDefault" => Drv::<CDefault>::boxed(),
        "CHash" => Drv::<CHash>::boxed(),
        "CBTree" => Drv::<CBTree>::boxed(),
        "CNull" => Drv::<CNull>::boxed(),
        "CFlagVec" => Drv::<CFlagVec>::boxed(),
        "CFlagDense" => Drv::<CFlagDense>::boxed(),
        "CFlagDefault" => Drv::<CFlagDefault>::boxed(),
        "CFlagHash" => Drv::<CFlagHash>::boxed(),
        "CFlagBTree" => Drv::<CFlagBTree>::boxed(),
        "CDerefVec" => Drv::<CDerefVec>::boxed(),
        "CDerefDense" => Drv::<CDerefDense>::boxed(),
        "CDerefDefault" => Drv::<CDerefDefault>::boxed(),
        "CDerefHash" => Drv::<CDerefHash>::boxed(),
        "CDerefBTree" => Drv::<CDerefBTree>::boxed(),
        "CVec2" => Drv::<CVec2>::boxed(),
        "CDense2" => Drv::<CDense2>::boxed(),
        "CFlagNull" => Drv::<CFlagNull>::boxed(),
        _ => panic!("unknown storage {}", name),
    }
}

pub struct JModel {
    pub live: BTreeMap<u32, Entity>,
    pub dead: Vec<Entity>,
    pub comps: BTreeMap<&'static str, BTreeMap<u32, Snap>>,
    pub bits: BTreeMap<&'static str, BTreeSet<u32>>,
    pub cs: BTreeMap<&'static str, BTreeMap<u32, u64>>,
}

type R = Result<(), Fail>;

impl JModel {
    fn set_of(&self, m: &Mem) -> Option<BTreeSet<u32>> {
        Some(match m {
            Mem::Ent => self.live.keys().cloned().collect(),
            Mem::Rd(n) | Mem::Wr(n) | Mem::RRd(n) | Mem::RWr(n) | Mem::Drain(n) => self.comps[n].keys().cloned().collect(),
            Mem::Bits(b) => self.bits[b].clone(),
            Mem::BAnd(a, b) => self.bits[a].intersection(&self.bits[b]).cloned().collect(),
            Mem::BOr(a, b) => self.bits[a].union(&self.bits[b]).cloned().collect(),
            Mem::BXor(a, b) => self.bits[a].symmetric_difference(&self.bits[b]).cloned().collect(),
            Mem::Cs(c) | Mem::CsMut(c) | Mem::CsVal(c) => self.cs[c].keys().cloned().collect(),
            Mem::Not(_) | Mem::BNot(_) | Mem::MaybeRd(_) | Mem::MaybeWr(_) | Mem::MaybeNot(_) | Mem::MaybeNot2(..) => return None,
        })
    }
    pub fn expected_indices(&self, mems: &[Mem]) -> Vec<u32> {
        let sets: Vec<Option<BTreeSet<u32>>> = mems.iter().map(|m| self.set_of(m)).collect();
        // start from the smallest finite member
        let base = sets
            .iter()
            .filter_map(|s| s.as_ref())
            .min_by_key(|s| s.len())
            .expect("every shape has a finite member")
            .clone();
        base.into_iter()
            .filter(|i| {
                mems.iter().zip(sets.iter()).all(|(m, s)| match (m, s) {
                    (_, Some(s)) => s.contains(i),
                    (Mem::Not(n), None) => !self.comps[n].contains_key(i),
                    (Mem::BNot(b), None) => !self.bits[b].contains(i),
                    _ => true,
                })
            })
            .collect()
    }

    /// Compare one yielded item with the model for index `i`, and apply the writes / moves it made.
    fn check_item(&mut self, shape: &str, mems: &[Mem], i: u32, item: &[Slot]) -> R {
        if item.len() != mems.len() {
            return Err(("C06", format!("{}: item has {} slots for {} members", shape, item.len(), mems.len())));
        }
        for (m, s) in mems.iter().zip(item.iter()) {
            let bad = |exp: String| -> R {
                Err(("C06", format!("{}: item for index {}: member {:?} yielded {:?}, expected {}", shape, i, m, s, exp)))
            };
            match m {
                Mem::Ent => {
                    if *s != Slot::Ent(self.live[&i]) {
                        return bad(format!("{:?}", self.live[&i]));
                    }
                }
                Mem::Rd(n) | Mem::RRd(n) => {
                    let c = self.comps[n][&i];
                    if *s != Slot::Comp(c) {
                        return bad(format!("that index's own component {:?}", c));
                    }
                }
                Mem::Wr(n) | Mem::RWr(n) => {
                    let c = self.comps[n][&i];
                    match s {
                        Slot::Written(w) if w.id == c.id => {
                            self.comps.get_mut(n).unwrap().insert(i, *w);
                        }
                        _ => return bad(format!("mutable access to that index's own component {:?}", c)),
                    }
                }
                Mem::Drain(n) => {
                    let c = self.comps[n][&i];
                    if *s != Slot::Taken(c) {
                        return bad(format!("that index's own component {:?} moved out", c));
                    }
                    self.comps.get_mut(n).unwrap().remove(&i);
                }
                Mem::Not(_) => {
                    if *s != Slot::Unit {
                        return bad("()".into());
                    }
                }
                Mem::MaybeNot(n) => {
                    let exp = Slot::Opt(if self.comps[n].contains_key(&i) { None } else { Some(Box::new(Slot::Unit)) });
                    if *s != exp {
                        return bad(format!("{:?} (optional member around a negated storage)", exp));
                    }
                }
                Mem::MaybeNot2(n, n2) => {
                    // the inner tuple is present where both storages lack the component; its item is ((), ())
                    let present = !self.comps[n].contains_key(&i) && !self.comps[n2].contains_key(&i);
                    let ok = match s {
                        Slot::Opt(None) => !present,
                        Slot::Opt(Some(_)) => present,
                        _ => false,
                    };
                    if !ok {
                        return bad(format!("{} (optional member around a tuple of two negated storages)", if present { "Some(..)" } else { "None" }));
                    }
                }
                Mem::MaybeRd(n) => {
                    let exp = Slot::Opt(self.comps[n].get(&i).map(|c| Box::new(Slot::Comp(*c))));
                    if *s != exp {
                        return bad(format!("{:?}", exp));
                    }
                }
                Mem::MaybeWr(n) => match (self.comps[n].get(&i).cloned(), s) {
                    (None, Slot::Opt(None)) => {}
                    (Some(c), Slot::Opt(Some(b))) => match **b {
                        Slot::Written(w) if w.id == c.id => {
                            self.comps.get_mut(n).unwrap().insert(i, w);
                        }
                        _ => return bad(format!("Some(mutable access to {:?})", c)),
                    },
                    (c, _) => return bad(format!("optional member, component is {:?}", c)),
                },
                Mem::Bits(_) | Mem::BAnd(..) | Mem::BOr(..) | Mem::BXor(..) | Mem::BNot(_) => {
                    if *s != Slot::Idx(i) {
                        return bad(format!("Idx({})", i));
                    }
                }
                Mem::Cs(c) | Mem::CsVal(c) => {
                    let v = self.cs[c][&i];
                    if *s != Slot::Amt(v) {
                        return bad(format!("Amt({})", v));
                    }
                    if let Mem::CsVal(_) = m {
                        // consumed
                    }
                }
                Mem::CsMut(c) => match s {
                    Slot::AmtWritten(v) => {
                        self.cs.get_mut(c).unwrap().insert(i, *v);
                    }
                    _ => return bad("mutable amount".into()),
                },
            }
        }
        Ok(())
    }
}

const BOUNDARY: [u32; 16] = [0, 1, 62, 63, 64, 65, 127, 128, 4094, 4095, 4096, 4097, 8190, 8191, 8192, 8193];
const FAR: [u32; 8] = [262142, 262143, 262144, 262145, 262207, 262208, 266239, 266240];

/// Hostile membership: density chosen per set from 1 .. 2^-12, plus boundary picks.
fn random_subset(rng: &mut Rng, universe: &[u32]) -> BTreeSet<u32> {
    let style = rng.below(8);
    let mut s = BTreeSet::new();
    match style {
        0 => {}
        1 => {
            if !universe.is_empty() {
                s.insert(*rng.pick(universe));
            }
        }
        2 => s.extend(universe.iter().cloned()),
        3 => {
            // dense run crossing boundaries
            if !universe.is_empty() {
                let a = rng.below(universe.len());
                let l = rng.range(1, 200);
                s.extend(universe.iter().skip(a).take(l).cloned());
            }
        }
        _ => {
            let shift = rng.range(0, 11) as u32;
            for u in universe {
                if BOUNDARY.contains(u) || FAR.contains(u) {
                    if rng.chance(1, 2) {
                        s.insert(*u);
                    }
                } else if (rng.next() & ((1u64 << shift) - 1)) == 0 {
                    s.insert(*u);
                }
            }
        }
    }
    s
}

fn run_case(rep: &mut Report, case: u64, defs: &[ShapeDef]) {
    let cfg = rep.cfg.clone();
    let mut rng = derive(cfg.seed, &[hash_str("join"), case]);
    ledger::reset();
    trace::set_ctx("C06");
    let mut hist: Vec<String> = Vec::new();
    let mut world = World::new();
    let drivers: BTreeMap<&'static str, Box<dyn Driver>> = STORAGES.iter().map(|n| (*n, driver(n))).collect();
    for (k, d) in drivers.values().enumerate() {
        d.register(&mut world, (k % 6) as u8);
    }
    // entity layout
    let far = cfg.extra_u64("far", 0) == 1 && rng.chance(1, 3);
    let small = cfg.extra_u64("small", 0) == 1;
    let n = if far {
        266300
    } else if small {
        rng.range(1, 140)
    } else {
        match rng.weighted(&[40, 30, 20, 10]) {
            0 => rng.range(1, 40),
            1 => rng.range(60, 300),
            2 => 4200,
            _ => 8300,
        }
    };
    let all: Vec<Entity> = world.create_iter().take(n).collect();
    let keep_all = n <= 300;
    let contiguous = keep_all && rng.chance(1, 4); // every index 0..n occupied: gap-free storages are possible
    let mut keep: BTreeSet<u32> = BTreeSet::new();
    for e in &all {
        let i = e.id();
        let special = BOUNDARY.contains(&i) || FAR.contains(&i);
        if contiguous || keep_all && rng.chance(9, 10) || special && rng.chance(4, 5) || !keep_all && rng.chance(1, 40) {
            keep.insert(i);
        }
    }
    let kill: Vec<Entity> = all.iter().filter(|e| !keep.contains(&e.id())).cloned().collect();
    world.delete_entities(&kill).expect("setup");
    let mut live: BTreeMap<u32, Entity> = all.iter().filter(|e| keep.contains(&e.id())).map(|e| (e.id(), *e)).collect();
    let mut dead: Vec<Entity> = kill.iter().cloned().take(16).collect();
    // entities created through shared access and deleted immediately before any maintain: they must
    // not linger in the entities join
    for _ in 0..rng.below(3) {
        let e = world.entities().create();
        world.delete_entity(e).expect("delete un-merged entity");
        dead.push(e);
    }
    // a few entities created through shared access (still awaiting maintain) and some pending deletions
    for _ in 0..rng.below(4) {
        let e = world.entities().create();
        live.insert(e.id(), e);
    }
    if !live.is_empty() {
        for _ in 0..rng.below(3) {
            let k = rng.below(live.len());
            let e = *live.values().nth(k).unwrap();
            let _ = world.entities().delete(e); // stays alive until maintain
        }
    }
    dead.retain(|d| !live.values().any(|l| l == d));
    let universe: Vec<u32> = live.keys().cloned().collect();
    let mut model = JModel { live, dead, comps: BTreeMap::new(), bits: BTreeMap::new(), cs: BTreeMap::new() };
    let mut payload = 0x100u64;
    // a common core so that high-arity intersections are not always empty
    let core: BTreeSet<u32> = if rng.chance(3, 4) {
        let mut c = random_subset(&mut rng, &universe);
        if c.len() > 400 {
            c = c.into_iter().filter(|_| rng.chance(1, 8)).collect();
        }
        c
    } else {
        BTreeSet::new()
    };
    let full_core = rng.chance(1, 2);
    for name in STORAGES.iter() {
        let mut members = random_subset(&mut rng, &universe);
        let negated_somewhere = matches!(*name, "CNull" | "CHash" | "CBTree");
        if full_core {
            if negated_somewhere && rng.chance(1, 2) {
                for c in &core {
                    members.remove(c);
                }
            } else {
                members.extend(core.iter().cloned());
            }
        } else if rng.chance(7, 10) {
            members.extend(core.iter().cloned());
        }
        let mut m = BTreeMap::new();
        // insertion order is shuffled: the dense storage's internal order is then a permutation of the index order
        let mut order: Vec<u32> = members.into_iter().collect();
        if rng.chance(1, 2) {
            rng.shuffle(&mut order);
        }
        for i in order {
            payload += 1;
            match drivers[name].access(&world, model.live[&i], Path::Insert, payload) {
                Out::InsOk(None, s) => {
                    m.insert(i, s);
                }
                other => {
                    rep.violation("C04", case, 0, format!("setup insert into {} failed: {:?}", name, other), "C04:setup".into(), &hist);
                    return;
                }
            }
        }
        model.comps.insert(name, m);
    }
    // bit sets may also mention indices that are not entities
    let mut bit_universe = universe.clone();
    for _ in 0..6 {
        bit_universe.push(rng.below(n + 70) as u32);
    }
    bit_universe.sort();
    bit_universe.dedup();
    let mut aux = Aux::default();
    for (name, set) in [("b0", &mut aux.b0), ("b1", &mut aux.b1), ("b2", &mut aux.b2)] {
        let mut s = random_subset(&mut rng, &bit_universe);
        if full_core {
            if name == "b1" && rng.chance(3, 4) {
                for c in &core {
                    s.remove(c);
                }
            } else {
                s.extend(core.iter().cloned());
            }
        } else if rng.chance(1, 2) {
            s.extend(core.iter().cloned());
        }
        for i in &s {
            set.add(*i);
        }
        model.bits.insert(name, s);
    }
    {
        let s = random_subset(&mut rng, &bit_universe);
        for i in &s {
            aux.a0.add(*i);
        }
        model.bits.insert("a0", s);
    }
    for (name, cs) in [("cs0", &mut aux.cs0), ("cs1", &mut aux.cs1), ("cs2", &mut aux.cs2)] {
        let mut s = random_subset(&mut rng, &universe);
        if full_core || rng.chance(1, 2) {
            s.extend(core.iter().cloned());
        }
        let mut m = BTreeMap::new();
        for i in s {
            payload += 1;
            cs.add(model.live[&i], Amt(payload));
            m.insert(i, payload);
        }
        model.cs.insert(name, m);
    }
    hist.push(format!(
        "setup: {} entities created, {} kept; members per storage {:?}; bits {:?}",
        n,
        model.live.len(),
        model.comps.iter().map(|(k, v)| (k, v.len())).collect::<Vec<_>>(),
        model.bits.iter().map(|(k, v)| (k, v.len())).collect::<Vec<_>>()
    ));
    trace::push(&hist[0]);
    let mut sig = Sig::default();
    let mut nontrivial = false;
    let rounds = rng.range(3, cfg.ops.max(4));
    let mut failure: Option<(Fail, usize)> = None;
    let mut items_checked = 0u64;
    let mut probes_checked = 0u64;
    for step in 1..=rounds {
        let d = &defs[rng.below(defs.len())];
        let mode = match (d.flag, rng.below(4)) {
            (_, 0) => Mode::Join,
            (_, 1) => Mode::LendNext,
            (_, 2) => Mode::LendForEach,
            _ => Mode::LendGet,
        };
        let mut probes: Vec<Entity> = Vec::new();
        if mode == Mode::LendGet {
            for _ in 0..6 {
                let c = rng.below(3);
                let e = if c == 0 && !model.dead.is_empty() {
                    model.dead[rng.below(model.dead.len())]
                } else if !model.live.is_empty() {
                    *model.live.values().nth(rng.below(model.live.len())).unwrap()
                } else {
                    continue;
                };
                probes.push(e);
            }
        }
        let exp = model.expected_indices(&d.mems);
        let line = format!("{}({:?}) expecting {} items", d.name, mode, exp.len());
        trace::push(&line);
        hist.push(line);
        rep.op(d.name);
        rep.bump(&format!("mode_{:?}", mode), 1);
        // restricted members are additionally asked for a dead handle (index possibly reused)
        *STALE_PROBE.lock().unwrap() = if model.dead.is_empty() { None } else { Some(model.dead[rng.below(model.dead.len())]) };
        *STALE_HIT.lock().unwrap() = None;
        let out = (d.f)(&world, &mut aux, mode, &probes);
        *STALE_PROBE.lock().unwrap() = None;
        let r: R = (|| {
            if let Some(m) = STALE_HIT.lock().unwrap().take() {
                return Err(("C06", format!("{} ({:?}): {}", d.name, mode, m)));
            }
            let effective_get = mode == Mode::LendGet && d.flag != 1;
            if !effective_get {
                // membership, order, multiplicity
                let got: Vec<Option<u32>> = out.items.iter().map(|it| index_of(&d.mems, it)).collect();
                if out.items.len() != exp.len() {
                    return Err((
                        "C06",
                        format!("{} ({:?}): yielded {} items but the intersection has {} indices (first expected {:?}, first yielded {:?})", d.name, mode, out.items.len(), exp.len(), exp.iter().take(8).collect::<Vec<_>>(), got.iter().take(8).collect::<Vec<_>>()),
                    ));
                }
                for (k, it) in out.items.iter().enumerate() {
                    let i = exp[k];
                    if let Some(g) = got[k] {
                        if g != i {
                            return Err(("C06", format!("{} ({:?}): item #{} is for index {} but index {} was expected at this position (ascending order of the intersection)", d.name, mode, k, g, i)));
                        }
                    }
                    model.check_item(d.name, &d.mems, i, it)?;
                    items_checked += 1;
                }
                rep.bump(&format!("items_arity_{:02}", d.mems.len()), out.items.len() as u64);
                // by-value change set: consumed entirely (entries not yielded are dropped with it)
                for m in &d.mems {
                    if let Mem::CsVal(c) = m {
                        model.cs.get_mut(c).unwrap().clear();
                    }
                }
                if exp.len() >= 2 && d.mems.len() >= 2 {
                    let lo = exp[0] / 64;
                    let hi = exp[exp.len() - 1] / 64;
                    let strict = d.mems.iter().filter_map(|m| model.set_of(m)).any(|s| s.len() != exp.len());
                    if lo != hi && strict {
                        nontrivial = true;
                    }
                }
            } else {
                let expset: BTreeSet<u32> = exp.iter().cloned().collect();
                for (e, a, b) in &out.probes {
                    let alive = model.live.get(&e.id()) == Some(e);
                    let inside = expset.contains(&e.id());
                    match (a, alive && inside) {
                        (Some(it), true) => model.check_item(d.name, &d.mems, e.id(), it)?,
                        (None, false) => {}
                        (Some(it), false) => {
                            return Err((
                                if alive { "C06" } else { "C03" },
                                format!("{}: lend_join().get({:?}) returned {:?} although the entity is {}", d.name, e, it, if alive { "not in the intersection" } else { "dead" }),
                            ))
                        }
                        (None, true) => return Err(("C06", format!("{}: lend_join().get({:?}) returned nothing although the entity is alive and in the intersection", d.name, e))),
                    }
                    match (b, inside) {
                        (Some(it), true) => model.check_item(d.name, &d.mems, e.id(), it)?,
                        (None, false) => {}
                        (x, _) => return Err(("C06", format!("{}: lend_join().get_unchecked({}) = {:?} but index in intersection = {}", d.name, e.id(), x.is_some(), inside))),
                    }
                    probes_checked += 1;
                }
            }
            if let Some(m) = ledger::take_faults().into_iter().next() {
                return Err(("C08", m));
            }
            // post-state of every storage equals the model (mutations landed on their own entity only)
            for name in STORAGES.iter() {
                let got = drivers[name].dump(&world);
                let want: Vec<(u32, Snap)> = model.comps[name].iter().map(|(i, s)| (*i, if drivers[name].is_zst() { ZST_SNAP } else { *s })).collect();
                if got != want {
                    let d0 = got.iter().zip(want.iter()).find(|(a, b)| a != b);
                    return Err(("C06", format!("after {} ({:?}): storage {} differs from the model: {} vs {} members, first difference {:?}", d.name, mode, name, got.len(), want.len(), d0)));
                }
            }
            Ok(())
        })();
        sig.push(hash_str(d.name));
        sig.push(mode as u64);
        if let Err(f) = r {
            failure = Some((f, step));
            break;
        }
        // re-fill consumed change set now and then
        if model.cs["cs2"].is_empty() && rng.chance(1, 2) {
            let s = random_subset(&mut rng, &universe);
            let mut m = BTreeMap::new();
            for i in s {
                payload += 1;
                aux.cs2.add(model.live[&i], Amt(payload));
                m.insert(i, payload);
            }
            model.cs.insert("cs2", m);
        }
    }
    drop(aux);
    drop(world);
    if failure.is_none() {
        if let Some(m) = ledger::take_faults().into_iter().next() {
            failure = Some((("C08", m), rounds + 1));
        } else if let Some((id, o, l)) = ledger::undropped().first() {
            failure = Some((("C08", format!("value {} ({:?}, {:?}) leaked after the world was dropped", id, o, l)), rounds + 1));
        }
    }
    rep.cases_run += 1;
    rep.bump("join_items_checked", items_checked);
    rep.bump("lend_get_probes_checked", probes_checked);
    rep.bump("entities", model.live.len() as u64);
    rep.max("max_index", model.live.keys().next_back().cloned().unwrap_or(0) as u64);
    if nontrivial && failure.is_none() {
        rep.distinct(sig.0 ^ crate::rng::mix(case));
    }
    if nontrivial && rep.samples.len() < 2 {
        rep.sample(serde_json::json!({"case": case, "steps": hist.iter().take(12).collect::<Vec<_>>()}));
    }
    if let Some(((p, msg), step)) = failure {
        let s = format!("{}:{}", p, msg.split(':').next().unwrap_or(""));
        rep.violation(p, case, step, msg, s, &hist);
    }
    let _ = ledger::take_faults();
}

/// The index an item belongs to, if some member reveals it (entity / bit set member).
fn index_of(mems: &[Mem], item: &[Slot]) -> Option<u32> {
    for (m, s) in mems.iter().zip(item.iter()) {
        match (m, s) {
            (Mem::Ent, Slot::Ent(e)) => return Some(e.id()),
            (_, Slot::Idx(i)) => return Some(*i),
            _ => {}
        }
    }
    None
}

pub fn run(rep: &mut Report) {
    let defs = shapes();
    rep.bump("shapes", defs.len() as u64);
    rep.max("max_arity", defs.iter().map(|d| d.mems.len()).max().unwrap_or(0) as u64);
    for case in rep.cfg.my_cases() {
        if rep.full() {
            break;
        }
        crate::report::guarded(rep, case, |rep| run_case(rep, case, &defs));
    }
}

// ===========================================================================
// Engine `parjoin` (C07): the same members joined in parallel on rayon pools of
// many sizes; every (index, components) item must be delivered exactly once.
// ===========================================================================
pub mod par {
    use super::*;
    use specs::rayon;
    use specs::rayon::iter::ParallelIterator;
    use specs::ParJoin;
    use std::sync::Mutex;

    fn tid() -> usize {
        rayon::current_thread_index().unwrap_or(usize::MAX)
    }

    /// Seeded per-item delay so that work stealing (and therefore splitting)
    /// happens at different places in different runs. Never time based.
    fn delay(item: &[Slot], seed: u64) {
        let mut h = seed;
        for s in item {
            if let Slot::Ent(e) = s {
                h = crate::rng::mix(h ^ e.id() as u64);
            }
            if let Slot::Idx(i) = s {
                h = crate::rng::mix(h ^ *i as u64);
            }
        }
        match h % 32 {
            0 => std::thread::yield_now(),
            1..=2 => {
                let mut x = h;
                for _ in 0..(h % 97) {
                    x = crate::rng::mix(x);
                }
                std::hint::black_box(x);
            }
            _ => {}
        }
    }

    macro_rules! pshape {
        ($name:ident; $( $v:ident : $kind:ident $( ( $($arg:tt),* ) )? ),+ ) => {
            #[allow(unused_mut, unused_variables)]
            fn $name(w: &World, aux: &mut Aux, variant: u8, seed: u64) -> Vec<(usize, Vec<Slot>)> {
                $( bind!($kind, $v, w $(, $($arg),*)? ); )+
                match variant {
                    0 => ( $( mexpr!($kind, $v, aux $(, $($arg),*)?), )+ )
                        .par_join()
                        .map(|t| {
                            let s = t.norm_all();
                            delay(&s, seed);
                            (tid(), s)
                        })
                        .collect(),
                    1 => {
                        let out = Mutex::new(Vec::new());
                        ( $( mexpr!($kind, $v, aux $(, $($arg),*)?), )+ ).par_join().for_each(|t| {
                            let s = t.norm_all();
                            delay(&s, seed);
                            out.lock().unwrap().push((tid(), s));
                        });
                        out.into_inner().unwrap()
                    }
                    _ => ( $( mexpr!($kind, $v, aux $(, $($arg),*)?), )+ )
                        .par_join()
                        .fold(Vec::new, |mut acc, t| {
                            let s = t.norm_all();
                            delay(&s, seed);
                            acc.push((tid(), s));
                            acc
                        })
                        .reduce(Vec::new, |mut a, mut b| {
                            a.append(&mut b);
                            a
                        }),
                }
            }
        };
    }

    type PFn = fn(&World, &mut Aux, u8, u64) -> Vec<(usize, Vec<Slot>)>;
    pub struct PDef {
        pub name: &'static str,
        pub f: PFn,
        pub mems: Vec<Mem>,
    }
    macro_rules! pdefs {
        ( $( $name:ident; $( $v:ident : $kind:ident $( ( $($arg:tt),* ) )? ),+ ; )+ ) => {
            $( pshape!($name; $( $v : $kind $( ( $($arg),* ) )? ),+ ); )+
            pub fn pshapes() -> Vec<PDef> {
                vec![ $( PDef { name: stringify!($name), f: $name, mems: vec![ $( mdesc!($kind $(, $($arg),*)?) ),+ ] } ),+ ]
            }
        };
    }

    pdefs! {
        p_ent; e: ent;
        p_ent_wr_rd; e: ent, a: wr(CVec), b: rd(CDense);
        p_wr_maybe; e: ent, a: wr(CDense), m: mrd(CHash);
        p_anti; e: ent, n: not(CVec), a: rd(CDefault);
        p_bits_wr; x: bits(b0), a: wr(CHash);
        p_two_wr; e: ent, a: wr(CBTree), b: wr(CDefault), c: rd(CNull);
        p_null_wr; e: ent, a: wr(CNull);
        p_rwr; e: ent, r: rwr(CVec2);
        p_rrd; r: rrd(CDense2), e: ent;
        p_flag_rd; e: ent, a: rd(CFlagVec), b: rd(CDerefDense);
        p_bor; x: bor(b1, b2), e: ent, a: rd(CVec);
        p_mwr; e: ent, m: mwr(CDense), a: rd(CVec);
        p_abits; x: abits(a0), e: ent;
        p_bnot; e: ent, x: bnot(b1), a: wr(CVec2);
        p8; e: ent, a: wr(CVec), b: rd(CDense), c: wr(CDefault), d: rd(CHash), f: wr(CBTree), g: mrd(CNull), h: rd(CFlagDense);
        p12; e: ent, a: rd(CVec), b: rd(CDense), c: rd(CDefault), d: rd(CHash), f: rd(CBTree), g: mrd(CNull), h: rd(CFlagVec), i: rd(CFlagDense), j: wr(CVec2), k: wr(CDense2), l: not(CFlagNull);
    }

    const POOL_SIZES: [usize; 7] = [1, 2, 3, 4, 8, 16, 64];

    fn run_case(rep: &mut Report, case: u64, defs: &[PDef], pools: &[rayon::ThreadPool]) {
        let cfg = rep.cfg.clone();
        let mut rng = derive(cfg.seed, &[hash_str("parjoin"), case]);
        ledger::reset();
        trace::set_ctx("C07");
        let mut hist: Vec<String> = Vec::new();
        let mut world = World::new();
        let drivers: BTreeMap<&'static str, Box<dyn Driver>> = STORAGES.iter().map(|n| (*n, driver(n))).collect();
        for (k, d) in drivers.values().enumerate() {
            d.register(&mut world, (k % 6) as u8);
        }
        let small = cfg.extra_u64("small", 0) == 1;
        let far = !small && (rng.chance(1, 25) || (cfg.extra_u64("far", 0) == 1 && rng.chance(1, 3)));
        let n = if far {
            266300 // indices beyond 262144: the top layer of the hierarchical bit sets has more than one bit
        } else if small {
            rng.range(1, 200)
        } else {
            match rng.weighted(&[25, 40, 24, 8, 3]) {
                0 => rng.range(1, 64),
                1 => rng.range(65, 600),
                2 => 4300,
                3 => 9000,
                _ => 34000, // more than 256 non-empty 64-index words: deep producer splits
            }
        };
        let all: Vec<Entity> = world.create_iter().take(n).collect();
        let style = if far {
            3
        } else if n > 20000 {
            0
        } else {
            rng.below(3)
        };
        let mut keep: BTreeSet<u32> = BTreeSet::new();
        for e in &all {
            let i = e.id();
            let k = match style {
                3 => FAR.contains(&i) || (i >= 262144 && rng.chance(1, 40)) || (BOUNDARY.contains(&i) && rng.chance(1, 2)),
                0 => true,
                1 => rng.chance(1, 3) || BOUNDARY.contains(&i),
                _ => rng.chance(1, 20) || BOUNDARY.contains(&i),
            };
            if k {
                keep.insert(i);
            }
        }
        let kill: Vec<Entity> = all.iter().filter(|e| !keep.contains(&e.id())).cloned().collect();
        world.delete_entities(&kill).expect("setup");
        let mut live: BTreeMap<u32, Entity> = all.iter().filter(|e| keep.contains(&e.id())).map(|e| (e.id(), *e)).collect();
        for _ in 0..rng.below(3) {
            let e = world.entities().create();
            world.delete_entity(e).expect("delete un-merged entity");
        }
        for _ in 0..rng.below(3) {
            let e = world.entities().create();
            live.insert(e.id(), e);
        }
        let universe: Vec<u32> = live.keys().cloned().collect();
        let mut model = JModel { live, dead: Vec::new(), comps: BTreeMap::new(), bits: BTreeMap::new(), cs: BTreeMap::new() };
        let mut payload = 0x100u64;
        let core: BTreeSet<u32> = {
            let mut c = random_subset(&mut rng, &universe);
            if rng.chance(1, 2) {
                c.extend(universe.iter().cloned().filter(|_| rng.chance(1, 2)));
            }
            c
        };
        let mut churned = 0u64;
        for name in STORAGES.iter() {
            let mut members = random_subset(&mut rng, &universe);
            let mut far_only = false;
            if far && rng.chance(1, 3) {
                // every member beyond 262144: nothing of this storage lies under the first top-layer bit
                members = universe.iter().cloned().filter(|i| *i >= 262144 && rng.chance(1, 2)).collect();
                far_only = true;
            } else if !matches!(*name, "CFlagNull") && rng.chance(4, 5) {
                members.extend(core.iter().cloned());
            }
            let mut m = BTreeMap::new();
            let mut order: Vec<u32> = members.into_iter().collect();
            if rng.chance(1, 2) {
                rng.shuffle(&mut order);
            }
            for i in order {
                payload += 1;
                if let Out::InsOk(None, s) = drivers[name].access(&world, model.live[&i], Path::Insert, payload) {
                    m.insert(i, s);
                }
            }
            // churn: removals followed by insertions leave dense layouts with moved tails and reused slots
            if !far_only && m.len() >= 3 && rng.chance(1, 2) {
                let keys: Vec<u32> = m.keys().cloned().collect();
                for _ in 0..rng.range(1, 6) {
                    let i = keys[rng.below(keys.len())];
                    if m.remove(&i).is_some() {
                        let _ = drivers[name].access(&world, model.live[&i], Path::Remove, 0);
                    }
                    if rng.chance(2, 3) {
                        let j = universe[rng.below(universe.len())];
                        if !m.contains_key(&j) {
                            payload += 1;
                            if let Out::InsOk(None, s) = drivers[name].access(&world, model.live[&j], Path::Insert, payload) {
                                m.insert(j, s);
                            }
                        }
                    }
                }
                churned += 1;
            }
            model.comps.insert(name, m);
        }
        let mut aux = Aux::default();
        for (name, set) in [("b0", &mut aux.b0), ("b1", &mut aux.b1), ("b2", &mut aux.b2)] {
            let mut s = random_subset(&mut rng, &universe);
            if name != "b1" {
                s.extend(core.iter().cloned());
            }
            for i in &s {
                set.add(*i);
            }
            model.bits.insert(name, s);
        }
        {
            let mut s = random_subset(&mut rng, &universe);
            s.extend(core.iter().cloned());
            for i in &s {
                aux.a0.add(*i);
            }
            model.bits.insert("a0", s);
        }
        for name in ["cs0", "cs1", "cs2"] {
            model.cs.insert(name, BTreeMap::new());
        }
        hist.push(format!("setup: {} created, {} kept, core {}, {} storages churned", n, model.live.len(), core.len(), churned));
        rep.bump("storages_churned_before_joins", churned);
        trace::push(&hist[0]);
        let rounds = rng.range(2, cfg.ops.max(3));
        let mut failure: Option<(Fail, usize)> = None;
        let mut nontrivial = false;
        let mut sig = Sig::default();
        let mut partition_sigs: BTreeSet<u64> = BTreeSet::new();
        for step in 1..=rounds {
            let d = &defs[rng.below(defs.len())];
            let pi = rng.below(pools.len());
            let variant = rng.below(3) as u8;
            let exp = model.expected_indices(&d.mems);
            let line = format!("{}(pool {}, variant {}) expecting {} items", d.name, POOL_SIZES[pi], variant, exp.len());
            trace::push(&line);
            hist.push(line);
            rep.op(d.name);
            let seed = rng.next();
            let mut got = pools[pi].install(|| (d.f)(&world, &mut aux, variant, seed));
            let r: R = (|| {
                // every item must reveal its index (all shapes contain an entity or bit-set member)
                let mut keyed: Vec<(u32, usize, Vec<Slot>)> = Vec::new();
                for (t, it) in got.drain(..) {
                    match index_of(&d.mems, &it) {
                        Some(i) => keyed.push((i, t, it)),
                        None => return Err(("C07", format!("{}: item without index witness {:?}", d.name, it))),
                    }
                }
                keyed.sort_by_key(|k| k.0);
                let mut counts: BTreeMap<u32, u32> = BTreeMap::new();
                for k in &keyed {
                    *counts.entry(k.0).or_insert(0) += 1;
                }
                if let Some((i, c)) = counts.iter().find(|(_, c)| **c != 1) {
                    return Err(("C07", format!("{} on a pool of {} threads: index {} was delivered {} times", d.name, POOL_SIZES[pi], i, c)));
                }
                let gi: Vec<u32> = keyed.iter().map(|k| k.0).collect();
                if gi != exp {
                    let gs: BTreeSet<u32> = gi.iter().cloned().collect();
                    let es: BTreeSet<u32> = exp.iter().cloned().collect();
                    return Err((
                        "C07",
                        format!(
                            "{} on a pool of {} threads delivered {} items, the sequential join has {}: missing {:?}, extra {:?}",
                            d.name,
                            POOL_SIZES[pi],
                            gi.len(),
                            exp.len(),
                            es.difference(&gs).take(8).collect::<Vec<_>>(),
                            gs.difference(&es).take(8).collect::<Vec<_>>()
                        ),
                    ));
                }
                let mut threads: BTreeSet<usize> = BTreeSet::new();
                let mut psig = Sig::default();
                for (i, t, it) in &keyed {
                    model.check_item(d.name, &d.mems, *i, it).map_err(|(_, m)| ("C07", m))?;
                    threads.insert(*t);
                    psig.push(*i as u64 * 131 + *t as u64);
                }
                partition_sigs.insert(psig.0);
                rep.max("max_threads_delivering_in_one_join", threads.len() as u64);
                if threads.len() >= 2 {
                    rep.bump("joins_delivered_by_2plus_threads", 1);
                    if exp.len() >= 2 && exp[0] / 4096 != exp[exp.len() - 1] / 4096 {
                        nontrivial = true;
                    }
                }
                rep.bump("par_items_checked", keyed.len() as u64);
                if let Some(m) = ledger::take_faults().into_iter().next() {
                    return Err(("C08", m));
                }
                // all mutations performed by the workers are visible now
                for name in STORAGES.iter() {
                    let got = drivers[name].dump(&world);
                    let want: Vec<(u32, Snap)> = model.comps[name].iter().map(|(i, s)| (*i, *s)).collect();
                    if got != want {
                        let d0 = got.iter().zip(want.iter()).find(|(a, b)| a != b);
                        return Err(("C07", format!("after {} on {} threads: storage {} differs from what the workers wrote: first difference {:?}", d.name, POOL_SIZES[pi], name, d0)));
                    }
                }
                Ok(())
            })();
            sig.push(hash_str(d.name));
            sig.push(pi as u64);
            if let Err(f) = r {
                failure = Some((f, step));
                break;
            }
        }
        drop(aux);
        drop(world);
        rep.cases_run += 1;
        rep.bump("distinct_partition_signatures_in_case", partition_sigs.len() as u64);
        rep.bump("entities", model.live.len() as u64);
        if nontrivial && failure.is_none() {
            let mut s = sig;
            for p in &partition_sigs {
                s.push(*p);
            }
            rep.distinct(s.0);
        }
        if nontrivial && rep.samples.len() < 2 {
            rep.sample(serde_json::json!({"case": case, "steps": hist.iter().take(10).collect::<Vec<_>>()}));
        }
        if let Some(((p, msg), step)) = failure {
            let s = format!("{}:{}", p, msg.split(':').next().unwrap_or(""));
            rep.violation(p, case, step, msg, s, &hist);
        }
        let _ = ledger::take_faults();
    }

    pub fn run(rep: &mut Report) {
        let defs = pshapes();
        let max_pool = rep.cfg.extra_u64("max_pool", 64) as usize;
        let pools: Vec<rayon::ThreadPool> = POOL_SIZES
            .iter()
            .filter(|n| **n <= max_pool)
            .map(|n| rayon::ThreadPoolBuilder::new().num_threads(*n).build().expect("pool"))
            .collect();
        rep.bump("par_shapes", defs.len() as u64);
        for case in rep.cfg.my_cases() {
            if rep.full() {
                break;
            }
            crate::report::guarded(rep, case, |rep| run_case(rep, case, &defs, &pools));
        }
    }
}
