//! Engine `panicdrop` (C19): fault enumeration of panicking component
//! destructors. For each storage kind x destroying operation x "which
//! destructor call panics", the k-th in-world destruction panics once; after
//! the panic is caught the ledger must show no double drop, nothing destroyed
//! may be exposed by lookups / joins / slice views, and the world must keep
//! working (checked against a model re-synchronised from what the world exposes).

use std::collections::{BTreeMap, BTreeSet};
use std::panic::{catch_unwind, AssertUnwindSafe};

use specs::prelude::*;
use specs::ChangeSet;

use crate::access::{judge, Upd};
use crate::comps::*;
use crate::ledger::{self, Snap, Val, ZST_SNAP};
use crate::model::Fail;
use crate::report::{trace, Report};
use crate::rng::{derive, hash_str, Rng};

type R = Result<(), Fail>;

pub const OPS: [&str; 12] = [
    "clear",
    "delete_entity",
    "delete_entities",
    "deferred_delete_maintain",
    "delete_all",
    "drop_world",
    "drop_world_with_lazy_queue",
    "lazy_overwrite_maintain",
    "insert_refused_or_placeholder",
    "lazy_remove_maintain",
    "changeset",
    "insert_with_panicking_default",
];

struct PAmt(Val);
impl std::ops::AddAssign for PAmt {
    fn add_assign(&mut self, rhs: PAmt) {
        self.0.payload = self.0.payload.wrapping_add(rhs.0.payload);
    }
}

struct P {
    world: Option<World>,
    drivers: Vec<Box<dyn Driver>>,
    /// index-keyed component model (orphans of a half-finished purge stay here)
    comps: Vec<BTreeMap<u32, Snap>>,
    live: BTreeMap<u32, Entity>,
    dead: Vec<Entity>,
    hist: Vec<String>,
    rng: Rng,
    payload: u64,
    /// property the ledger's "destroyed twice / exposed after destruction" faults are reported under
    tag: &'static str,
}

fn panic_msg(e: &Box<dyn std::any::Any + Send>) -> String {
    if let Some(s) = e.downcast_ref::<String>() {
        s.clone()
    } else if let Some(s) = e.downcast_ref::<&str>() {
        s.to_string()
    } else {
        "<non-string panic>".into()
    }
}

impl P {
    fn w(&self) -> &World {
        self.world.as_ref().unwrap()
    }
    fn log(&mut self, s: String) {
        trace::push(&s);
        self.hist.push(s);
    }
    fn p(&mut self) -> u64 {
        self.payload += 1;
        self.payload
    }

    /// After a caught panic: everything the world exposes must be ledger-live;
    /// rebuild the model from it.
    fn resync(&mut self) -> R {
        let ents: Vec<Entity> = {
            let e = self.w().entities();
            (&e).join().collect()
        };
        self.live = ents.iter().map(|e| (e.id(), *e)).collect();
        for k in 0..self.drivers.len() {
            let d = self.drivers[k].dump(self.w());
            self.comps[k] = d.into_iter().collect();
            if let Err(m) = self.drivers[k].observe_slices(self.w()) {
                return Err(("C19", format!("{}: {}", self.drivers[k].name(), m)));
            }
            let c = self.drivers[k].count(self.w());
            if c != self.comps[k].len() {
                return Err((self.tag, format!("{}: count() = {} but the join yields {} items", self.drivers[k].name(), c, self.comps[k].len())));
            }
        }
        self.faults("after the caught panic")
    }

    fn faults(&mut self, when: &str) -> R {
        if let Some(m) = ledger::take_faults().into_iter().next() {
            return Err((self.tag, format!("{}: {}", when, m)));
        }
        Ok(())
    }

    fn full_compare(&mut self, when: &str) -> R {
        for k in 0..self.drivers.len() {
            let got = self.drivers[k].dump(self.w());
            let want: Vec<(u32, Snap)> = self.comps[k].iter().map(|(i, s)| (*i, *s)).collect();
            if got != want {
                return Err((self.tag, format!("{}: storage {} no longer agrees with what it exposed before ({} vs {} members)", when, self.drivers[k].name(), got.len(), want.len())));
            }
            if let Err(m) = self.drivers[k].observe_slices(self.w()) {
                return Err(("C19", format!("{}: {}", self.drivers[k].name(), m)));
            }
        }
        let ents: Vec<Entity> = {
            let e = self.w().entities();
            (&e).join().collect()
        };
        let want: Vec<Entity> = self.live.values().cloned().collect();
        if ents != want {
            return Err(("C19", format!("{}: entities join {:?} differs from the expected live set {:?}", when, ents.iter().take(8).collect::<Vec<_>>(), want.iter().take(8).collect::<Vec<_>>())));
        }
        self.faults(when)
    }

    /// A few ordinary operations: the world must still behave like the model.
    fn continuation(&mut self, n: usize) -> R {
        for _ in 0..n {
            let c = self.rng.weighted(&[50, 10, 10, 6, 10]);
            match c {
                0 => {
                    let k = self.rng.below(self.drivers.len());
                    let h = if !self.dead.is_empty() && self.rng.chance(1, 5) {
                        self.dead[self.rng.below(self.dead.len())]
                    } else if !self.live.is_empty() {
                        *self.live.values().nth(self.rng.below(self.live.len())).unwrap()
                    } else {
                        continue;
                    };
                    let path = *self.rng.pick(&ALL_PATHS);
                    let p = self.p();
                    let alive = self.live.get(&h.id()) == Some(&h);
                    let m = self.comps[k].get(&h.id()).cloned();
                    let out = self.drivers[k].access(self.w(), h, path, p);
                    self.log(format!("after: access({}, {:?}, {:?}) -> {:?}", self.drivers[k].name(), h, path, out));
                    let d = &self.drivers[k];
                    let v = judge(d.name(), d.is_zst(), d.tracked(), alive, self.comps[k].is_empty(), m, h, path, p, out)
                        .map_err(|(_, m)| (self.tag, format!("world not usable after the caught panic: {}", m)))?;
                    match v.upd {
                        Upd::Keep => {}
                        Upd::Set(s) => {
                            self.comps[k].insert(h.id(), s);
                        }
                        Upd::Remove => {
                            self.comps[k].remove(&h.id());
                        }
                    }
                }
                1 => {
                    let h = self.world.as_mut().unwrap().create_entity().build();
                    self.log(format!("after: create({:?})", h));
                    if self.live.contains_key(&h.id()) || self.dead.contains(&h) {
                        return Err(("C19", format!("after the caught panic a creation returned {:?}, colliding with an existing handle", h)));
                    }
                    self.live.insert(h.id(), h);
                }
                2 => {
                    if self.live.is_empty() {
                        continue;
                    }
                    let h = *self.live.values().nth(self.rng.below(self.live.len())).unwrap();
                    let r = self.world.as_mut().unwrap().delete_entity(h);
                    self.log(format!("after: delete_entity({:?})", h));
                    if r.is_err() {
                        return Err(("C19", format!("after the caught panic delete_entity({:?}) failed for a live entity", h)));
                    }
                    self.live.remove(&h.id());
                    self.dead.push(h);
                    for k in 0..self.drivers.len() {
                        self.comps[k].remove(&h.id());
                    }
                }
                3 => {
                    self.world.as_mut().unwrap().maintain();
                    self.log("after: maintain()".into());
                }
                _ => {}
            }
            self.full_compare("continuing after the caught panic")?;
        }
        Ok(())
    }
}

fn run_case(rep: &mut Report, case: u64) {
    let cfg = rep.cfg.clone();
    let mut rng = derive(cfg.seed, &[hash_str("panicdrop"), case]);
    ledger::reset();
    trace::set_ctx("C19");
    let nk = every_driver().len() as u64;
    let nops = OPS.len() as u64;
    let kind_ix = (case % nk) as usize;
    let mut op = ((case / nk) % nops) as usize;
    if let Some(only) = cfg.extra.get("only_op") {
        // one operation, or several separated by '+' (the grid column is folded onto them)
        let names: Vec<&str> = only.split('+').collect();
        let pick = names[op % names.len()];
        op = OPS.iter().position(|o| *o == pick).expect("only_op names an operation");
    }
    let kslot = (case / (nk * nops)) % 8; // 0..5 => k = 1..6, 6 => middle, 7 => last
    let mut pool = every_driver();
    let primary = pool.remove(kind_ix);
    rng.shuffle(&mut pool);
    let nother = rng.range(1, 3);
    let mut drivers: Vec<Box<dyn Driver>> = vec![primary];
    drivers.extend(pool.into_iter().take(nother));
    let zst_primary = drivers[0].is_zst();
    let mut world = World::new();
    for (i, d) in drivers.iter().enumerate() {
        d.register(&mut world, (case as usize + i) as u8 % 6);
    }
    // one cell in eight has a population above the sizes at which batch paths may change strategy
    // (64 = one mask word); never under Miri, where a cell of that size takes minutes
    let large = !cfg!(miri) && rng.chance(1, 8);
    let n = if large {
        rng.range(65, 260)
    } else if cfg.extra_u64("big", 0) == 1 {
        rng.range(1, 40)
    } else {
        rng.range(1, 10)
    };
    let ents: Vec<Entity> = world.create_iter().take(n).collect();
    // make room for default-filled gaps: a few leading entities without components
    let mut st = P {
        world: Some(world),
        comps: (0..drivers.len()).map(|_| BTreeMap::new()).collect(),
        drivers,
        live: ents.iter().map(|e| (e.id(), *e)).collect(),
        dead: Vec::new(),
        hist: Vec::new(),
        rng: rng.clone(),
        payload: 0x900,
        tag: match cfg.prop.as_str() {
            "C08" => "C08",
            "C16" => "C16",
            "C04" => "C04",
            _ => "C19",
        },
    };
    for k in 0..st.drivers.len() {
        for e in &ents {
            let dense = k == 0 || st.rng.chance(1, 2);
            if dense && st.rng.chance(5, 6) {
                let p = st.p();
                if let Out::InsOk(None, s) = st.drivers[k].access(st.w(), *e, Path::Insert, p) {
                    st.comps[k].insert(e.id(), s);
                }
            }
        }
    }
    let name0 = st.drivers[0].name();
    st.hist.push(format!(
        "setup: primary {} + {:?}; {} entities; members {:?}",
        name0,
        st.drivers.iter().skip(1).map(|d| d.name()).collect::<Vec<_>>(),
        n,
        st.comps.iter().map(|c| c.len()).collect::<Vec<_>>()
    ));
    trace::push(&st.hist[0]);
    // change-tracking primaries: a reader registered now must be able to replay the membership
    let mut reader = st.drivers[0].register_reader(st.w());
    let baseline: BTreeSet<u32> = st.comps[0].keys().cloned().collect();
    let members0 = st.comps[0].len() as u64;
    let total_members: u64 = st.comps.iter().map(|c| c.len() as u64).sum();
    // which destructor call panics
    let span = match OPS[op] {
        "clear" => members0,
        _ => total_members,
    }
    .max(1);
    let k = match kslot {
        6 => span / 2 + 1,
        7 => span,
        x => x + 1,
    };
    let mut injected = false;
    let mut destroyed_before_panic = 0u64;
    let mut event_replays = 0u64;
    let r: R = (|| {
        let before = ledger::stats_snapshot()["ledger_destroyed_in_world"];
        let zbefore = ledger::zst_balance().1;
        let arm = |zst: bool| {
            if zst {
                ledger::arm_zst_panic(k)
            } else {
                ledger::arm_panic(k)
            }
        };
        let mut world_gone = false;
        let res: Result<(), Box<dyn std::any::Any + Send>> = match OPS[op] {
            "clear" => {
                arm(zst_primary);
                st.hist.push(format!("arm: destructor call #{} panics; clear({})", k, name0));
                let w = st.world.as_ref().unwrap();
                let d = &st.drivers[0];
                catch_unwind(AssertUnwindSafe(|| d.clear(w)))
            }
            "delete_entity" => {
                let h = *st.live.values().nth(st.rng.below(st.live.len())).unwrap();
                arm(zst_primary && st.comps[0].contains_key(&h.id()));
                st.hist.push(format!("arm: destructor call #{} panics; delete_entity({:?})", k, h));
                let w = st.world.as_mut().unwrap();
                catch_unwind(AssertUnwindSafe(|| {
                    let _ = w.delete_entity(h);
                }))
            }
            "delete_entities" => {
                let mut list: Vec<Entity> = st.live.values().cloned().filter(|_| st.rng.chance(2, 3)).collect();
                if list.is_empty() {
                    list.push(*st.live.values().next().unwrap());
                }
                st.rng.shuffle(&mut list);
                arm(zst_primary);
                st.hist.push(format!("arm: destructor call #{} panics; delete_entities({:?})", k, list));
                let w = st.world.as_mut().unwrap();
                catch_unwind(AssertUnwindSafe(|| {
                    let _ = w.delete_entities(&list);
                }))
            }
            "deferred_delete_maintain" => {
                let list: Vec<Entity> = st.live.values().cloned().filter(|_| st.rng.chance(2, 3)).collect();
                for h in &list {
                    let _ = st.w().entities().delete(*h);
                }
                arm(zst_primary);
                st.hist.push(format!("arm: destructor call #{} panics; Entities::delete x{} then maintain()", k, list.len()));
                let w = st.world.as_mut().unwrap();
                catch_unwind(AssertUnwindSafe(|| w.maintain()))
            }
            "delete_all" => {
                arm(zst_primary);
                st.hist.push(format!("arm: destructor call #{} panics; delete_all()", k));
                let w = st.world.as_mut().unwrap();
                catch_unwind(AssertUnwindSafe(|| w.delete_all()))
            }
            "drop_world" => {
                arm(zst_primary);
                st.hist.push(format!("arm: destructor call #{} panics; drop(world)", k));
                let w = st.world.take().unwrap();
                world_gone = true;
                catch_unwind(AssertUnwindSafe(move || drop(w)))
            }
            "drop_world_with_lazy_queue" => {
                {
                    let w = st.world.as_ref().unwrap();
                    let lazy = w.read_resource::<LazyUpdate>();
                    for _ in 0..st.rng.range(1, 6) {
                        let h = *st.live.values().nth(st.rng.below(st.live.len())).unwrap();
                        st.payload += 1;
                        let _ = st.drivers[0].lazy_insert(&lazy, h, st.payload);
                    }
                }
                arm(zst_primary);
                st.hist.push(format!("arm: destructor call #{} panics; drop(world) with queued lazy inserts", k));
                let w = st.world.take().unwrap();
                world_gone = true;
                catch_unwind(AssertUnwindSafe(move || drop(w)))
            }
            "lazy_overwrite_maintain" => {
                {
                    let w = st.world.as_ref().unwrap();
                    let lazy = w.read_resource::<LazyUpdate>();
                    let targets: Vec<Entity> = st.live.values().cloned().filter(|_| st.rng.chance(2, 3)).collect();
                    for h in targets {
                        st.payload += 1;
                        let _ = st.drivers[0].lazy_insert(&lazy, h, st.payload);
                    }
                }
                arm(zst_primary);
                st.hist.push(format!("arm: destructor call #{} panics; lazy inserts over existing components + maintain()", k));
                let w = st.world.as_mut().unwrap();
                catch_unwind(AssertUnwindSafe(|| w.maintain()))
            }
            "insert_refused_or_placeholder" => {
                // a dead target (value destroyed inside insert) and vacant slots below the
                // vector length (default placeholder destroyed inside the storage)
                let victim = *st.live.values().next().unwrap();
                st.world.as_mut().unwrap().delete_entity(victim).unwrap();
                st.live.remove(&victim.id());
                for c in st.comps.iter_mut() {
                    c.remove(&victim.id());
                }
                st.dead.push(victim);
                let vacant: Vec<Entity> = st.live.values().cloned().filter(|e| !st.comps[0].contains_key(&e.id())).collect();
                arm(zst_primary);
                st.hist.push(format!("arm: destructor call #{} panics; insert on dead {:?} and into {} vacant slots", k, victim, vacant.len()));
                let w = st.world.as_ref().unwrap();
                let d = &st.drivers[0];
                let mut pl = st.payload;
                let r = catch_unwind(AssertUnwindSafe(|| {
                    pl += 1;
                    let _ = d.access(w, victim, Path::Insert, pl);
                    for h in &vacant {
                        pl += 1;
                        let _ = d.access(w, *h, Path::Insert, pl);
                    }
                }));
                st.payload = pl + 8;
                r
            }
            "insert_with_panicking_default" => {
                // an insertion that has to construct default fillers (default-filled vector: a gap
                // beyond the vector's length) while `Default::default()` panics: nothing is inserted
                let mut vacant: Vec<Entity> = st.live.values().cloned().filter(|e| !st.comps[0].contains_key(&e.id())).collect();
                vacant.reverse(); // highest index first, so that gaps have to be filled
                let extra = st.world.as_mut().unwrap().create_iter().take(3).collect::<Vec<_>>();
                for e in &extra {
                    st.live.insert(e.id(), *e);
                }
                vacant.insert(0, extra[2]);
                ledger::arm_default_panic(k);
                st.hist.push(format!("arm: Default::default() call #{} panics; inserts into {} vacant entities (highest index first) and get_mut_or_default", k, vacant.len()));
                let w = st.world.as_ref().unwrap();
                let d = &st.drivers[0];
                let mut pl = st.payload;
                let r = catch_unwind(AssertUnwindSafe(|| {
                    for (i, h) in vacant.iter().enumerate() {
                        pl += 1;
                        let path = if i % 3 == 2 { Path::GetMutOrDefault } else { Path::Insert };
                        let _ = d.access(w, *h, path, pl);
                    }
                }));
                st.payload = pl + 8;
                r
            }
            "lazy_remove_maintain" => {
                {
                    let w = st.world.as_ref().unwrap();
                    let lazy = w.read_resource::<LazyUpdate>();
                    let targets: Vec<Entity> = st.live.values().cloned().collect();
                    for h in targets {
                        st.drivers[0].lazy_remove(&lazy, h);
                    }
                }
                arm(zst_primary);
                st.hist.push(format!("arm: destructor call #{} panics; lazy removes + maintain()", k));
                let w = st.world.as_mut().unwrap();
                catch_unwind(AssertUnwindSafe(|| w.maintain()))
            }
            _ => {
                // change set of ledger values: clear / drop / by-value join dropped midway
                let mut cs: ChangeSet<PAmt> = ChangeSet::new();
                let targets: Vec<Entity> = st.live.values().cloned().collect();
                for h in &targets {
                    for _ in 0..st.rng.range(1, 2) {
                        st.payload += 1;
                        let v = Val::new(st.payload);
                        ledger::given(v.id);
                        cs.add(*h, PAmt(v));
                    }
                }
                let variant = st.rng.below(3);
                ledger::arm_panic(k);
                st.hist.push(format!("arm: destructor call #{} panics; change set of {} entries, variant {}", k, targets.len(), variant));
                match variant {
                    0 => {
                        let r = catch_unwind(AssertUnwindSafe(|| cs.clear()));
                        ledger::disarm();
                        // whatever happened, the set must be coherent, expose only live values and stay usable
                        if let Err(m) = cs.verif_check() {
                            ledger::fault(format!("change set structure broken after clear(): {}", m));
                        }
                        for (_, a) in (cs.verif_mask().clone(), &cs).join() {
                            let _ = a.0.observe();
                        }
                        for h in targets.iter().take(3) {
                            st.payload += 1;
                            let v = Val::new(st.payload);
                            ledger::given(v.id);
                            cs.add(*h, PAmt(v));
                        }
                        if let Err(m) = cs.verif_check() {
                            ledger::fault(format!("change set structure broken after re-adding: {}", m));
                        }
                        cs.clear();
                        drop(cs);
                        r
                    }
                    1 => catch_unwind(AssertUnwindSafe(move || drop(cs))),
                    _ => catch_unwind(AssertUnwindSafe(move || {
                        let mask = cs.verif_mask().clone();
                        let mut it = (&mask, cs).join();
                        if let Some((_, a)) = it.next() {
                            ledger::returned(a.0.id);
                            drop(a);
                        }
                        drop(it);
                    })),
                }
            }
        };
        ledger::disarm();
        injected = ledger::panic_was_injected();
        destroyed_before_panic = ledger::stats_snapshot()["ledger_destroyed_in_world"] - before + (ledger::zst_balance().1 - zbefore);
        match &res {
            Err(e) => {
                let m = panic_msg(e);
                st.hist.push(format!("-> panicked: {}", m));
                if !m.contains("verif: injected") {
                    return Err(("C19", format!("{} on {}: unexpected panic: {}", OPS[op], name0, m)));
                }
            }
            Ok(()) => st.hist.push(format!("-> completed ({} destructor calls, no panic injected)", destroyed_before_panic)),
        }
        st.faults(&format!("{} on {} with destructor call #{} panicking", OPS[op], name0, k))?;
        if !world_gone {
            st.resync()?;
            if let (Some(r), true) = (reader.as_mut(), OPS[op] != "clear") {
                // C12 across a caught destructor panic: replaying Inserted / Removed over the
                // membership at registration must still reproduce the membership
                let evs = st.drivers[0].read_events(st.w(), r);
                let mut replayed = baseline.clone();
                for e in &evs {
                    match e {
                        specs::storage::ComponentEvent::Inserted(i) => {
                            replayed.insert(*i);
                        }
                        specs::storage::ComponentEvent::Removed(i) => {
                            replayed.remove(i);
                        }
                        _ => {}
                    }
                }
                let now: BTreeSet<u32> = st.comps[0].keys().cloned().collect();
                if replayed != now {
                    return Err((
                        "C12",
                        format!(
                            "{} on {} (destructor call #{} panicking): replaying the Inserted/Removed events over the membership at registration gives {:?} but the storage's membership is {:?}",
                            OPS[op],
                            name0,
                            k,
                            replayed.iter().take(12).collect::<Vec<_>>(),
                            now.iter().take(12).collect::<Vec<_>>()
                        ),
                    ));
                }
                event_replays = 1;
            }
            st.continuation(cfg.ops.min(12))?;
            // teardown must not destroy anything twice either
            let w = st.world.take().unwrap();
            let r = catch_unwind(AssertUnwindSafe(move || drop(w)));
            if let Err(e) = r {
                return Err(("C19", format!("dropping the world after the caught panic panicked: {}", panic_msg(&e))));
            }
            st.hist.push("drop(world)".into());
        }
        st.faults("after dropping the world")?;
        if !injected {
            // no panic happened: then nothing may leak either
            if let Some((id, o, l)) = ledger::undropped().first() {
                return Err(("C08", format!("{} on {}: value {} ({:?}, {:?}) leaked although no destructor panicked", OPS[op], name0, id, o, l)));
            }
        }
        Ok(())
    })();
    rep.cases_run += 1;
    rep.op(OPS[op]);
    rep.bump(&format!("kind_{}", name0), 1);
    rep.bump("event_replays_across_caught_panic", event_replays);
    if injected {
        rep.bump("cases_with_injected_panic", 1);
        if n >= 65 {
            rep.bump("cases_with_injected_panic_population_over_64", 1);
        }
        rep.bump(&format!("panicked_in_{}", OPS[op]), 1);
    } else {
        rep.bump("cases_where_k_exceeded_destructions", 1);
    }
    let middle = injected && k >= 2 && destroyed_before_panic >= 2 && k < span && span >= 3;
    if middle && r.is_ok() {
        rep.distinct(crate::rng::mix(case ^ 0xC19) ^ hash_str(name0) ^ (op as u64) << 8 ^ k);
    }
    if middle && rep.samples.len() < 3 {
        rep.sample(serde_json::json!({"case": case, "kind": name0, "op": OPS[op], "panicking_destructor_call": k, "trace": st.hist.iter().take(16).collect::<Vec<_>>()}));
    }
    if let Err((p, msg)) = r {
        let s = format!("{}:{}:{}", p, OPS[op], msg.split(':').next().unwrap_or(""));
        let step = st.hist.len();
        rep.violation(p, case, step, msg, s, &st.hist);
    }
    ledger::disarm();
    drop(st);
    let _ = ledger::take_faults();
    let _ = BTreeSet::<u32>::new();
    let _ = ZST_SNAP;
}

pub fn run(rep: &mut Report) {
    rep.bump("grid_kinds", every_driver().len() as u64);
    rep.bump("grid_ops", OPS.len() as u64);
    rep.bump("grid_panic_positions", 8);
    for case in rep.cfg.my_cases() {
        if rep.full() {
            break;
        }
        crate::report::guarded(rep, case, |rep| run_case(rep, case));
    }
    for (k, v) in ledger::stats_snapshot() {
        rep.bump(&k, v);
    }
}
