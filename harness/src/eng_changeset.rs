//! Engine `changeset` (C16): a ChangeSet built from arbitrary (entity, amount)
//! sequences must hold, per entity, the fold of its amounts in arrival order,
//! and every join over it must pair each sum with that entity exactly once.
//! Amounts are sequences whose `+=` appends (non-commutative, so order shows),
//! carry a running value whose `+=` is not associative (so a regrouping such as
//! `stored += (a2 + a3)` instead of `stored += a2; stored += a3` shows: collected
//! and extended sets must equal the set built by adding the pairs one by one)
//! and a ledger value (so double drops / leaks show).

use std::collections::{BTreeMap, BTreeSet};

use specs::prelude::*;
use specs::{ChangeSet, LendJoin};

use crate::comps::*;
use crate::ledger::{self, Snap, Val};
use crate::model::Fail;
use crate::report::{trace, Report};
use crate::rng::{derive, hash_str, Rng, Sig};

type R = Result<(), Fail>;

pub struct SeqAmt {
    pub items: Vec<u32>,
    /// left fold of `comb` over the amounts: `comb` is neither commutative nor associative
    pub fold: u64,
    pub val: Val,
}
fn fold_init(x: u32) -> u64 {
    (x as u64 + 1).wrapping_mul(0x9E37_79B9_7F4A_7C15)
}
fn comb(a: u64, b: u64) -> u64 {
    (a.rotate_left(7) ^ b).wrapping_mul(0xD6E8_FEB8_6659_FD93).wrapping_add(a >> 3)
}
/// The value an entity holds after its amounts were added one by one in arrival order.
fn fold_of(items: &[u32]) -> u64 {
    let mut it = items.iter();
    let mut f = fold_init(*it.next().expect("an entry has at least one amount"));
    for x in it {
        f = comb(f, fold_init(*x));
    }
    f
}
impl SeqAmt {
    fn new(x: u32) -> SeqAmt {
        let v = Val::new(x as u64);
        ledger::given(v.id);
        SeqAmt { items: vec![x], fold: fold_init(x), val: v }
    }
    /// in-place change through a mutable join: the same as `+= new(mark)` without a ledger value
    fn push_mark(&mut self, mark: u32) {
        self.items.push(mark);
        self.fold = comb(self.fold, fold_init(mark));
    }
}
impl std::ops::AddAssign for SeqAmt {
    fn add_assign(&mut self, rhs: SeqAmt) {
        self.items.extend(rhs.items.iter().cloned());
        self.fold = comb(self.fold, rhs.fold);
        // rhs (and its ledger value) is consumed here
    }
}

/// The same sequence of pairs behind iterators whose size hints differ: exact, none at all, and legal but
/// very loose upper bounds (a count of pairs says nothing about entity indices and is not bounded by the
/// 2^24 indices a bit set can hold).
fn dress(pairs: Vec<(Entity, SeqAmt)>, shape: usize) -> Box<dyn Iterator<Item = (Entity, SeqAmt)>> {
    let mut it = pairs.into_iter();
    match shape {
        0 => Box::new(it),
        1 => Box::new(std::iter::from_fn(move || it.next())),
        2 => Box::new((0u32..u32::MAX).map_while(move |_| it.next())),
        3 => Box::new((0usize..20_000_000).map_while(move |_| it.next())),
        _ => Box::new((0u64..(1u64 << 40)).map_while(move |_| it.next()).filter(|_| true)),
    }
}

struct St {
    world: World,
    ents: Vec<Entity>,
    cs: ChangeSet<SeqAmt>,
    /// index -> (amounts in arrival order, ledger id of the first amount which survives)
    model: BTreeMap<u32, (Vec<u32>, u64)>,
    comp: BTreeMap<u32, Snap>,
    hist: Vec<String>,
    rng: Rng,
    next: u32,
    max_run: u64,
    interleaved3: bool,
    hint_shapes: BTreeSet<usize>,
}

const BOUNDARY: [u32; 10] = [0, 1, 63, 64, 65, 4095, 4096, 4097, 8191, 8192];

impl St {
    fn log(&mut self, s: String) {
        trace::push(&s);
        self.hist.push(s);
    }
    fn pairs(&mut self, n: usize) -> Vec<(Entity, u32)> {
        let pat = self.rng.below(4);
        let mut v = Vec::new();
        let pool: Vec<Entity> = self.ents.clone();
        let fixed = *self.rng.pick(&pool);
        let mut run = fixed;
        for i in 0..n {
            let e = match pat {
                0 => fixed,
                1 => pool[i % pool.len()],
                2 => {
                    if self.rng.chance(1, 3) {
                        run = *self.rng.pick(&pool);
                    }
                    run
                }
                _ => *self.rng.pick(&pool),
            };
            self.next += 1;
            v.push((e, self.next));
        }
        v
    }
    fn model_add(&mut self, e: Entity, x: u32, id: u64) {
        let ent = self.model.entry(e.id()).or_insert_with(|| (Vec::new(), id));
        ent.0.push(x);
        self.max_run = self.max_run.max(ent.0.len() as u64);
    }
    fn note_interleave(&mut self, pairs: &[(Entity, u32)]) {
        // some entity has >= 3 amounts with other entities' amounts in between
        let mut pos: BTreeMap<u32, Vec<usize>> = BTreeMap::new();
        for (i, (e, _)) in pairs.iter().enumerate() {
            pos.entry(e.id()).or_default().push(i);
        }
        for p in pos.values() {
            if p.len() >= 3 && p[p.len() - 1] - p[0] >= p.len() {
                self.interleaved3 = true;
            }
        }
    }

    fn check_content(&mut self, what: &str) -> R {
        if let Err(m) = self.cs.verif_check() {
            return Err(("C16", format!("{}: change set structure broken: {}", what, m)));
        }
        let mask: Vec<u32> = self.cs.verif_mask().join().collect();
        let want: Vec<u32> = self.model.keys().cloned().collect();
        if mask != want {
            return Err(("C16", format!("{}: change set holds entries for indices {:?} but the entities mentioned are {:?}", what, mask.iter().take(12).collect::<Vec<_>>(), want.iter().take(12).collect::<Vec<_>>())));
        }
        let got: Vec<(u32, Vec<u32>, u64, u64)> = (self.cs.verif_mask(), &self.cs).join().map(|(i, a)| (i, a.items.clone(), a.val.observe().id, a.fold)).collect();
        for (i, items, id, fold) in got {
            let (w, wid) = &self.model[&i];
            if &items != w {
                return Err(("C16", format!("{}: entity index {} accumulated {:?} but its amounts in arrival order are {:?}", what, i, items, w)));
            }
            if fold != fold_of(w) {
                return Err((
                    "C16",
                    format!(
                        "{}: entity index {} holds its amounts {:?} in arrival order but combined in another grouping than adding them one by one (running value {:#x}, expected {:#x})",
                        what, i, items, fold, fold_of(w)
                    ),
                ));
            }
            if id != *wid {
                return Err(("C16", format!("{}: entity index {} holds ledger value {} instead of its first amount {}", what, i, id, wid)));
            }
        }
        if let Some(m) = ledger::take_faults().into_iter().next() {
            return Err(("C16", m));
        }
        Ok(())
    }
}

fn run_case(rep: &mut Report, case: u64) {
    let cfg = rep.cfg.clone();
    let mut rng = derive(cfg.seed, &[hash_str("changeset"), case]);
    ledger::reset();
    trace::set_ctx("C16");
    let mut world = World::new();
    world.register::<CDense>();
    world.register::<CVec>();
    let small = cfg.extra_u64("small", 0) == 1;
    let n = match rng.weighted(&[50, 30, if small { 0 } else { 20 }]) {
        0 => rng.range(1, 12),
        1 => rng.range(60, 200),
        _ => 8300,
    };
    let all: Vec<Entity> = world.create_iter().take(n).collect();
    let mut ents: Vec<Entity> = all.iter().filter(|e| n <= 12 || BOUNDARY.contains(&e.id()) || rng.chance(1, (n / 8).max(2) as u32)).cloned().collect();
    if ents.is_empty() {
        ents.push(all[0]);
    }
    // some of the mentioned entities are dead: a change set only uses the index
    let kill: Vec<Entity> = all.iter().filter(|e| !ents.contains(e) || rng.chance(1, 6)).cloned().collect();
    world.delete_entities(&kill).unwrap();
    let mut comp = BTreeMap::new();
    let mut payload = 0x50u64;
    for e in ents.iter().filter(|e| !kill.contains(e)) {
        if rng.chance(2, 3) {
            payload += 1;
            if let Out::InsOk(None, s) = (Drv::<CDense>(std::marker::PhantomData)).access(&world, *e, Path::Insert, payload) {
                comp.insert(e.id(), s);
            }
        }
    }
    let mut st = St { world, ents, cs: ChangeSet::new(), model: BTreeMap::new(), comp, hist: Vec::new(), rng: rng.clone(), next: 0, max_run: 0, interleaved3: false, hint_shapes: BTreeSet::new() };
    st.hist.push(format!("setup: {} entities created, {} mentioned", n, st.ents.len()));
    let mut sig = Sig::default();
    let steps = st.rng.range(2, cfg.ops.max(3));
    let mut failure: Option<(Fail, usize)> = None;
    let mut consumed_partially = 0u64;
    let mut joins = 0u64;
    for step in 1..=steps {
        let c = st.rng.weighted(&[18, 14, 20, 4, 10, 10, 8, 8, 8]);
        sig.push(c as u64);
        let r: R = (|| {
            match c {
                0 => {
                    // collect: replaces the change set (occasionally from a long sequence)
                    let k = if st.rng.chance(1, 5) { st.rng.range(21, 160) } else { st.rng.range(0, 14) };
                    let pairs = st.pairs(k);
                    st.note_interleave(&pairs);
                    // dropping the old set destroys what it held
                    st.model.clear();
                    let mut ids = Vec::new();
                    let it: Vec<(Entity, SeqAmt)> = pairs.iter().map(|(e, x)| {
                        let a = SeqAmt::new(*x);
                        ids.push(a.val.id);
                        (*e, a)
                    }).collect();
                    let shape = if st.rng.chance(1, 2) { 0 } else { st.rng.below(5) };
                    st.hint_shapes.insert(shape);
                    st.cs = dress(it, shape).collect::<ChangeSet<SeqAmt>>();
                    st.log(format!("collect[hint shape {}]({:?})", shape, pairs.iter().map(|(e, x)| (e.id(), *x)).collect::<Vec<_>>()));
                    for ((e, x), id) in pairs.iter().zip(ids) {
                        st.model_add(*e, *x, id);
                    }
                }
                1 => {
                    let k = if st.rng.chance(1, 8) { st.rng.range(21, 120) } else { st.rng.range(0, 10) };
                    let pairs = st.pairs(k);
                    st.note_interleave(&pairs);
                    let mut ids = Vec::new();
                    let it: Vec<(Entity, SeqAmt)> = pairs.iter().map(|(e, x)| {
                        let a = SeqAmt::new(*x);
                        ids.push(a.val.id);
                        (*e, a)
                    }).collect();
                    let shape = if st.rng.chance(1, 2) { 0 } else { st.rng.below(5) };
                    st.hint_shapes.insert(shape);
                    st.cs.extend(dress(it, shape));
                    st.log(format!("extend[hint shape {}]({:?})", shape, pairs.iter().map(|(e, x)| (e.id(), *x)).collect::<Vec<_>>()));
                    for ((e, x), id) in pairs.iter().zip(ids) {
                        st.model_add(*e, *x, id);
                    }
                }
                2 => {
                    let pairs = st.pairs(1);
                    let (e, x) = pairs[0];
                    let a = SeqAmt::new(x);
                    let id = a.val.id;
                    st.cs.add(e, a);
                    st.log(format!("add({}, {})", e.id(), x));
                    st.model_add(e, x, id);
                }
                3 => {
                    st.cs.clear();
                    st.log("clear()".into());
                    st.model.clear();
                }
                4 => {
                    // shared join with entities and a storage
                    joins += 1;
                    let got: Vec<(u32, Vec<u32>, Snap)> = {
                        let s = st.world.read_storage::<CDense>();
                        let e = st.world.entities();
                        (&e, &st.cs, &s).join().map(|(e, a, c)| (e.id(), a.items.clone(), c.observe())).collect()
                    };
                    st.log(format!("join(&entities, &cs, &storage) -> {}", got.len()));
                    let want: Vec<(u32, Vec<u32>, Snap)> = st.model.iter().filter(|(i, _)| st.comp.contains_key(i)).map(|(i, (v, _))| (*i, v.clone(), st.comp[i])).collect();
                    if got != want {
                        return Err(("C16", format!("(&entities, &changeset, &storage).join() paired {:?} but expected {:?}", got.iter().take(6).collect::<Vec<_>>(), want.iter().take(6).collect::<Vec<_>>())));
                    }
                }
                5 => {
                    // mutable join: append a marker to every sum
                    joins += 1;
                    st.next += 1;
                    let mark = st.next;
                    let lend = st.rng.chance(1, 2);
                    let mut seen = Vec::new();
                    if lend {
                        let mut j = (st.cs.verif_mask().clone(), &mut st.cs).lend_join();
                        while let Some((i, a)) = j.next() {
                            a.push_mark(mark);
                            seen.push(i);
                        }
                    } else {
                        for (i, a) in (st.cs.verif_mask().clone(), &mut st.cs).join() {
                            a.push_mark(mark);
                            seen.push(i);
                        }
                    }
                    st.log(format!("join(&mut cs, lend={}) -> {}", lend, seen.len()));
                    let want: Vec<u32> = st.model.keys().cloned().collect();
                    if seen != want {
                        return Err(("C16", format!("(&mut changeset).join() visited {:?}, expected each mentioned entity once: {:?}", seen.iter().take(12).collect::<Vec<_>>(), want.iter().take(12).collect::<Vec<_>>())));
                    }
                    for v in st.model.values_mut() {
                        v.0.push(mark);
                    }
                }
                6 | 7 => {
                    // by-value consumption, complete or partial, alone or with a storage
                    joins += 1;
                    let cs = std::mem::take(&mut st.cs);
                    let total = st.model.len();
                    let take = if c == 6 { total } else { st.rng.below(total + 1) };
                    let with_storage = st.rng.chance(1, 3);
                    let lend = st.rng.chance(1, 3);
                    let mut got: Vec<(u32, Vec<u32>, u64)> = Vec::new();
                    {
                        let mask = {
                            let mut b = specs::BitSet::new();
                            for i in st.model.keys() {
                                b.add(*i);
                            }
                            b
                        };
                        if with_storage {
                            let s = st.world.read_storage::<CDense>();
                            for (i, a, _c) in (&mask, cs, &s).join().take(take) {
                                ledger::returned(a.val.id);
                                got.push((i, a.items.clone(), a.val.snap().id));
                            }
                        } else if lend {
                            let mut j = (&mask, cs).lend_join();
                            let mut n = 0;
                            while n < take {
                                match j.next() {
                                    Some((i, a)) => {
                                        ledger::returned(a.val.id);
                                        got.push((i, a.items.clone(), a.val.snap().id));
                                    }
                                    None => break,
                                }
                                n += 1;
                            }
                        } else {
                            for (i, a) in (&mask, cs).join().take(take) {
                                ledger::returned(a.val.id);
                                got.push((i, a.items.clone(), a.val.snap().id));
                            }
                        }
                    }
                    st.log(format!("consume(take {} of {}, with_storage={}, lend={}) -> {}", take, total, with_storage, lend, got.len()));
                    let want: Vec<(u32, Vec<u32>, u64)> = st
                        .model
                        .iter()
                        .filter(|(i, _)| !with_storage || st.comp.contains_key(i))
                        .take(take)
                        .map(|(i, (v, id))| (*i, v.clone(), *id))
                        .collect();
                    if got != want {
                        return Err(("C16", format!("consuming the change set yielded {:?}, expected {:?}", got.iter().take(6).collect::<Vec<_>>(), want.iter().take(6).collect::<Vec<_>>())));
                    }
                    if take < total {
                        consumed_partially += 1;
                    }
                    // whatever was not yielded was destroyed with the iterator: nothing may be left alive
                    st.model.clear();
                    let left: Vec<_> = ledger::undropped().into_iter().filter(|(id, _, loc)| *loc == ledger::Loc::World && !st.comp.values().any(|s| s.id == *id)).collect();
                    if let Some((id, _, _)) = left.first() {
                        return Err(("C16", format!("after consuming the change set, amount value {} was neither yielded nor destroyed", id)));
                    }
                }
                _ => {
                    // apply: join with a mutable storage, each sum used exactly once
                    joins += 1;
                    let mut applied: Vec<(u32, usize)> = Vec::new();
                    {
                        let mut s = st.world.write_storage::<CDense>();
                        let e = st.world.entities();
                        for (e, a, c) in (&e, &st.cs, &mut s).join() {
                            c.0.payload = c.0.payload.wrapping_add(a.items.len() as u64);
                            applied.push((e.id(), a.items.len()));
                        }
                    }
                    st.log(format!("apply(&cs, &mut storage) -> {}", applied.len()));
                    let want: Vec<(u32, usize)> = st.model.iter().filter(|(i, _)| st.comp.contains_key(i)).map(|(i, (v, _))| (*i, v.len())).collect();
                    if applied != want {
                        return Err(("C16", format!("applying the change set touched {:?}, expected each entity with a component once: {:?}", applied.iter().take(8).collect::<Vec<_>>(), want.iter().take(8).collect::<Vec<_>>())));
                    }
                    for (i, n) in want {
                        let s = st.comp.get_mut(&i).unwrap();
                        s.payload = s.payload.wrapping_add(n as u64);
                    }
                    let got = (Drv::<CDense>(std::marker::PhantomData)).dump(&st.world);
                    let wantd: Vec<(u32, Snap)> = st.comp.iter().map(|(i, s)| (*i, *s)).collect();
                    if got != wantd {
                        return Err(("C16", "after applying the change set the storage differs from the model (an amount was applied to another entity's component)".to_string()));
                    }
                }
            }
            st.check_content(st.hist.last().cloned().unwrap_or_default().as_str())
        })();
        if let Err(f) = r {
            failure = Some((f, step));
            break;
        }
    }
    let St { world, cs, hist, max_run, interleaved3, .. } = st;
    drop(cs);
    drop(world);
    if failure.is_none() {
        if let Some(m) = ledger::take_faults().into_iter().next() {
            failure = Some((("C16", m), steps + 1));
        } else if let Some((id, o, l)) = ledger::undropped().first() {
            failure = Some((("C16", format!("value {} ({:?}, {:?}) leaked after the change set and the world were dropped", id, o, l)), steps + 1));
        }
    }
    rep.cases_run += 1;
    rep.bump("joins_checked", joins);
    rep.bump("partial_consumptions", consumed_partially);
    for s in &st.hint_shapes {
        rep.bump(&format!("sequences_behind_size_hint_shape_{}", s), 1);
    }
    rep.max("max_amounts_per_entity", max_run);
    for h in &hist {
        rep.op(h.split(|c| c == '(' || c == ' ' || c == ':').next().unwrap_or("?"));
    }
    if interleaved3 && failure.is_none() {
        rep.distinct(sig.0 ^ crate::rng::mix(case));
    }
    if interleaved3 && rep.samples.len() < 2 {
        rep.sample(serde_json::json!({"case": case, "ops": hist.iter().take(14).collect::<Vec<_>>()}));
    }
    if let Some(((p, msg), step)) = failure {
        let s = format!("{}:{}", p, msg.split(':').next().unwrap_or(""));
        rep.violation(p, case, step, msg, s, &hist);
    }
    let _ = ledger::take_faults();
    let _ = BTreeSet::<u32>::new();
}

pub fn run(rep: &mut Report) {
    for case in rep.cfg.my_cases() {
        if rep.full() {
            break;
        }
        crate::report::guarded(rep, case, |rep| run_case(rep, case));
    }
    for (k, v) in ledger::stats_snapshot() {
        rep.bump(&k, v);
    }
}
