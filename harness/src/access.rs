//! Shared oracle for one handle-taking storage access: predicts the outcome
//! from the model (is the handle's entity not yet dead? what value does the
//! model hold for it?), says how the model changes, and which change-tracking
//! events the access must produce on a tracked storage.

use specs::Entity;

use crate::comps::{Out, Path};
use crate::ledger::{self, Snap, DEFAULT_PAYLOAD, ZST_SNAP};
use crate::model::Fail;

#[derive(Clone, Copy, Debug, PartialEq, Eq)]
pub enum Upd {
    Keep,
    Set(Snap),
    Remove,
}

/// Expected events of one operation on a tracked storage.
#[derive(Clone, Debug, Default, PartialEq, Eq)]
pub struct ExpEv {
    /// exact sequence of insertions (true) / removals (false) with their index
    pub ir: Vec<(bool, u32)>,
    /// indices that must have >= 1 Modified event (and no others may have one)
    pub modified: Vec<u32>,
}

pub struct Verdict {
    pub upd: Upd,
    pub ev: ExpEv,
    /// a value went back to the caller
    pub returned: bool,
}

/// `tracked`: 0 none, 1 FlaggedStorage (event at get_mut time), 2 DerefFlaggedStorage
/// (event when the access is dereferenced mutably).
#[allow(clippy::too_many_arguments)]
pub fn judge(
    name: &str,
    zst: bool,
    tracked: u8,
    alive: bool,
    storage_empty: bool,
    m: Option<Snap>,
    h: Entity,
    path: Path,
    p: u64,
    out: Out,
) -> Result<Verdict, Fail> {
    let prop: &'static str = if alive { "C04" } else { "C03" };
    let m = if alive { m } else { None };
    let id = h.id();
    let bad = |exp: String| -> Result<Verdict, Fail> {
        Err((
            prop,
            format!(
                "{:?} on {} with {} handle {:?}: expected {}, got {:?}",
                path,
                name,
                if alive { "a live" } else { "a dead" },
                h,
                exp,
                out
            ),
        ))
    };
    let mut v = Verdict { upd: Upd::Keep, ev: ExpEv::default(), returned: false };
    // does a *write through the mutable access* flag? (driver writes for these paths)
    let flag_on_write = tracked != 0;
    // does merely obtaining mutable access flag?
    let flag_on_get = tracked == 1;
    match path {
        Path::GenericRemove => {
            // returns nothing; a live member is removed and destroyed, everything else is a no-op
            if out != Out::Absent {
                return bad("()".into());
            }
            if let Some(s) = m {
                if s != ZST_SNAP && !ledger::is_dropped(s.id) {
                    return Err(("C08", format!("GenericWriteStorage::remove: value {} was not destroyed", s.id)));
                }
                v.upd = Upd::Remove;
                v.ev.ir.push((false, id));
            }
        }
        Path::Get | Path::GenericGet | Path::ReadGet | Path::LendGetShared | Path::RestrictGetOther | Path::RestrictReadGetOther => {
            if matches!(path, Path::RestrictGetOther | Path::RestrictReadGetOther) && storage_empty {
                if out != Out::NotReached {
                    return bad("NotReached (storage empty)".into());
                }
                return Ok(v);
            }
            let exp = match m {
                Some(s) => Out::Found(s),
                None => Out::Absent,
            };
            if out != exp {
                return bad(format!("{:?}", exp));
            }
        }
        Path::GetMut | Path::GenericGetMut | Path::LendGetMut | Path::RestrictGetOtherMut => {
            if path == Path::RestrictGetOtherMut && storage_empty {
                if out != Out::NotReached {
                    return bad("NotReached (storage empty)".into());
                }
                return Ok(v);
            }
            let exp = match m {
                Some(s) => Out::Found(if zst { ZST_SNAP } else { Snap { id: s.id, payload: p } }),
                None => Out::Absent,
            };
            if out != exp {
                return bad(format!("{:?}", exp));
            }
            if let (Some(_), Out::Found(s)) = (m, out) {
                v.upd = Upd::Set(s);
                if flag_on_write {
                    v.ev.modified.push(id);
                }
            }
        }
        Path::GetMutNoWrite => {
            let exp = match m {
                Some(s) => Out::Found(s),
                None => Out::Absent,
            };
            if out != exp {
                return bad(format!("{:?}", exp));
            }
            if m.is_some() && flag_on_get {
                v.ev.modified.push(id);
            }
        }
        Path::Contains | Path::ReadContains => {
            if out != Out::Bool(m.is_some()) {
                return bad(format!("Bool({})", m.is_some()));
            }
        }
        Path::Insert | Path::GenericInsert => match out {
            Out::InsOk(old, new) if alive => {
                if old != m {
                    return bad(format!("InsOk({:?}, _)", m));
                }
                v.returned = old.is_some();
                v.upd = Upd::Set(new);
                if old.is_some() {
                    if flag_on_write {
                        v.ev.modified.push(id);
                    }
                } else {
                    v.ev.ir.push((true, id));
                }
            }
            Out::InsErr(new) if !alive => {
                if new != ZST_SNAP && !ledger::is_dropped(new.id) {
                    return Err(("C08", format!("value {} offered to a refused insert was not destroyed", new.id)));
                }
            }
            _ => return bad(if alive { format!("InsOk({:?}, _)", m) } else { "InsErr".into() }),
        },
        Path::Remove => {
            let exp = match m {
                Some(s) => Out::Found(s),
                None => Out::Absent,
            };
            if out != exp {
                return bad(format!("{:?}", exp));
            }
            if m.is_some() {
                v.upd = Upd::Remove;
                v.returned = true;
                v.ev.ir.push((false, id));
            }
        }
        Path::Entry => {
            let exp = if !alive {
                Out::EntryErr
            } else {
                match m {
                    Some(s) => Out::EntryOccupied(s),
                    None => Out::EntryVacant,
                }
            };
            if out != exp {
                return bad(format!("{:?}", exp));
            }
        }
        Path::EntryOrInsert => {
            if !alive {
                if out != Out::EntryErr {
                    return bad("EntryErr".into());
                }
            } else if let Some(s) = m {
                if out != Out::Found(s) {
                    return bad(format!("Found({:?})", s));
                }
                if flag_on_get {
                    v.ev.modified.push(id);
                }
            } else {
                match out {
                    Out::Found(s) if zst || (s.payload == p && ledger::live_in_world(s.id)) => {
                        v.upd = Upd::Set(s);
                        v.ev.ir.push((true, id));
                        if flag_on_get {
                            v.ev.modified.push(id);
                        }
                    }
                    _ => return bad(format!("Found(new value with payload {})", p)),
                }
            }
        }
        Path::EntryReplace => {
            // StorageEntry::replace: Some(old) if occupied, None if vacant
            if !alive {
                if out != Out::EntryErr {
                    return bad("EntryErr".into());
                }
            } else {
                match out {
                    Out::InsOk(old, new) if old == m => {
                        v.returned = old.is_some();
                        v.upd = Upd::Set(new);
                        if old.is_some() {
                            if flag_on_write {
                                v.ev.modified.push(id);
                            }
                        } else {
                            v.ev.ir.push((true, id));
                            if flag_on_get {
                                v.ev.modified.push(id);
                            }
                        }
                    }
                    _ => return bad(format!("replace -> {:?}", m)),
                }
            }
        }
        Path::EntryRemove => {
            // occupied entry .remove(); vacant: nothing
            if !alive {
                if out != Out::EntryErr {
                    return bad("EntryErr".into());
                }
            } else {
                let exp = match m {
                    Some(s) => Out::Found(s),
                    None => Out::EntryVacant,
                };
                if out != exp {
                    return bad(format!("{:?}", exp));
                }
                if m.is_some() {
                    v.upd = Upd::Remove;
                    v.returned = true;
                    v.ev.ir.push((false, id));
                }
            }
        }
        Path::GetMutOrDefault => {
            if !alive {
                if out != Out::Absent {
                    return bad("Absent".into());
                }
            } else if let Some(s) = m {
                if out != Out::Found(s) {
                    return bad(format!("Found({:?})", s));
                }
                if flag_on_get {
                    v.ev.modified.push(id);
                }
            } else {
                match out {
                    Out::Found(s)
                        if zst
                            || (s.payload == DEFAULT_PAYLOAD
                                && ledger::origin(s.id) == Some(ledger::Origin::Default)
                                && ledger::live_in_world(s.id)) =>
                    {
                        v.upd = Upd::Set(s);
                        v.ev.ir.push((true, id));
                        if flag_on_get {
                            v.ev.modified.push(id);
                        }
                    }
                    _ => return bad("Found(default-constructed value)".into()),
                }
            }
        }
    }
    Ok(v)
}
