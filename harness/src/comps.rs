//! Instrumented component types (one per storage kind / wrapper combination)
//! and an object-safe driver so engines can address storages by number.

use std::collections::BTreeMap;
use std::marker::PhantomData;

use specs::prelude::*;
use specs::storage::{
    AccessMut, ComponentEvent, BTreeStorage, DefaultVecStorage, DenseVecStorage, DerefFlaggedStorage,
    FlaggedStorage, HashMapStorage, NullStorage, StorageEntry, VecStorage,
};
use specs::world::{EntitiesRes, EntityResBuilder, LazyBuilder};
use specs::{Builder, LendJoin};

use crate::ledger::{self, Snap, Val, Z, ZST_SNAP};
use crate::rng::Rng;

/// What the harness needs from an instrumented component type.
pub trait Comp: Component + Send + Sync + Default + 'static {
    const NAME: &'static str;
    const IS_ZST: bool = false;
    const TRACKED: u8 = 0; // 0 = none, 1 = FlaggedStorage, 2 = DerefFlaggedStorage
    /// Wrap a fresh harness value (for ZST: the value is released, a Z is born).
    fn make(payload: u64) -> (Self, Snap);
    /// Look at a component exposed by the world.
    fn observe(&self) -> Snap;
    /// Look at a component handed back to the harness.
    fn snap(&self) -> Snap;
    fn set_payload(&mut self, p: u64);
    /// Tell the ledger this value is being moved into / out of the world.
    fn given(&self);
    fn returned(&self);
    /// Compare the slice views (if this storage kind has them) with the expected
    /// index -> value map; returns the number of slots compared.
    fn slice_check(_s: &ReadStorage<Self>, _exp: &BTreeMap<u32, Snap>) -> Result<u64, String> {
        Ok(0)
    }
    /// Write `p` into the payload of the component of index `idx` through
    /// `as_mut_slice`; false if this kind has no slice view.
    fn slice_write(_s: &mut WriteStorage<Self>, _idx: u32, _target: Snap, _p: u64) -> bool {
        false
    }
    /// Walk the slice view observing every initialised slot (ledger-checked);
    /// returns the number of slots looked at.
    fn slice_observe(_s: &ReadStorage<Self>) -> u64 {
        0
    }
    /// Structural self-check hook (dense storage only).
    fn structural(_s: &ReadStorage<Self>) -> Result<bool, String> {
        Ok(false)
    }
    fn register_reader(_s: &mut WriteStorage<Self>) -> Option<ReaderId<ComponentEvent>> {
        None
    }
    fn read_events(_s: &ReadStorage<Self>, _r: &mut ReaderId<ComponentEvent>) -> Vec<ComponentEvent> {
        Vec::new()
    }
    fn set_emission(_s: &mut WriteStorage<Self>, _on: bool) {}
    /// `(&entities, &mut storage).join()` writing a fresh payload to a seeded
    /// subset; only for kinds offering shared mutable access (not the deferred
    /// flagging wrapper). Returns (index, observed snap, written?) per item.
    fn join_mut_run(
        _e: &Entities,
        _s: &mut WriteStorage<Self>,
        _decide: &mut Rng,
        _write_pct: u32,
        _base: &mut u64,
    ) -> Option<Vec<(u32, Snap, bool)>> {
        None
    }
    /// `(&mut storage.restrict_mut()).join()` with seeded get / get_mut choices.
    fn restrict_mut_join(
        _s: &mut WriteStorage<Self>,
        _decide: &mut Rng,
        _get_pct: u32,
        _mut_pct: u32,
        _base: &mut u64,
    ) -> Option<Vec<REv>> {
        None
    }
}

/// Ordered record of what a restricted join did / saw.
#[derive(Clone, Debug)]
pub enum REv {
    /// item ordinal, value seen through get()
    Get(usize, Snap),
    /// item ordinal, value seen after writing through get_mut()
    Mut(usize, Snap),
    /// get_mut() obtained but not written / dereferenced mutably
    MutNoWrite(usize, Snap),
    /// lookup of another entity: (entity, mutable, result, payload written)
    Other(Entity, bool, Option<Snap>, u64),
    /// an item was yielded (ordinal)
    Item(usize),
}

macro_rules! sgm_impl {
    (2) => {};
    ($t:tt) => {
        fn join_mut_run(
            e: &Entities,
            s: &mut WriteStorage<Self>,
            decide: &mut Rng,
            write_pct: u32,
            base: &mut u64,
        ) -> Option<Vec<(u32, Snap, bool)>> {
            let mut out = Vec::new();
            for (ent, mut c) in (e, s).join() {
                let wr = decide.chance(write_pct, 100);
                if wr {
                    *base += 1;
                    c.access_mut().set_payload(*base);
                }
                out.push((ent.id(), c.observe(), wr));
            }
            Some(out)
        }
        fn restrict_mut_join(
            s: &mut WriteStorage<Self>,
            decide: &mut Rng,
            get_pct: u32,
            mut_pct: u32,
            base: &mut u64,
        ) -> Option<Vec<REv>> {
            let mut out = Vec::new();
            let mut r = s.restrict_mut();
            for (i, mut item) in (&mut r).join().enumerate() {
                out.push(REv::Item(i));
                if decide.chance(get_pct, 100) {
                    out.push(REv::Get(i, item.get().observe()));
                }
                if decide.chance(mut_pct, 100) {
                    *base += 1;
                    let mut a = item.get_mut();
                    a.access_mut().set_payload(*base);
                    out.push(REv::Mut(i, a.observe()));
                }
            }
            Some(out)
        }
    };
}

macro_rules! slice_impl {
    (none) => {};
    (vec) => {
        fn slice_check(s: &ReadStorage<Self>, exp: &BTreeMap<u32, Snap>) -> Result<u64, String> {
            let sl = s.as_slice();
            let mut n = 0;
            for (i, e) in exp {
                if (*i as usize) >= sl.len() {
                    return Err(format!("as_slice() has {} slots but index {} is occupied", sl.len(), i));
                }
                // SAFETY: the model says index i is occupied, i.e. it was inserted and not removed.
                let got = unsafe { sl[*i as usize].assume_init_ref() }.observe();
                if got != *e {
                    return Err(format!("as_slice()[{}] = {:?}, expected {:?}", i, got, e));
                }
                n += 1;
            }
            Ok(n)
        }
        fn slice_observe(s: &ReadStorage<Self>) -> u64 {
            let sl = s.as_slice();
            let mut n = 0;
            for i in s.mask().join() {
                if (i as usize) < sl.len() {
                    // SAFETY: index i is in the mask.
                    let _ = unsafe { sl[i as usize].assume_init_ref() }.observe();
                    n += 1;
                } else {
                    ledger::fault(format!("as_slice() has {} slots but index {} is in the mask", sl.len(), i));
                }
            }
            n
        }
        fn slice_write(s: &mut WriteStorage<Self>, idx: u32, _target: Snap, p: u64) -> bool {
            let sl = s.as_mut_slice();
            // SAFETY: caller passes an occupied index.
            unsafe { sl[idx as usize].assume_init_mut() }.set_payload(p);
            true
        }
    };
    (default) => {
        fn slice_check(s: &ReadStorage<Self>, exp: &BTreeMap<u32, Snap>) -> Result<u64, String> {
            let sl = s.as_slice();
            let mut n = 0;
            if let Some((max, _)) = exp.iter().next_back() {
                if (*max as usize) >= sl.len() {
                    return Err(format!("as_slice() has {} slots but index {} is occupied", sl.len(), max));
                }
            }
            for (i, c) in sl.iter().enumerate() {
                let got = c.observe();
                match exp.get(&(i as u32)) {
                    Some(e) => {
                        if got != *e {
                            return Err(format!("as_slice()[{}] = {:?}, expected {:?}", i, got, e));
                        }
                    }
                    None => {
                        if got.payload != crate::ledger::DEFAULT_PAYLOAD
                            || ledger::origin(got.id) != Some(ledger::Origin::Default)
                        {
                            return Err(format!(
                                "as_slice()[{}] is unoccupied but holds {:?} instead of a default value",
                                i, got
                            ));
                        }
                    }
                }
                n += 1;
            }
            Ok(n)
        }
        fn slice_observe(s: &ReadStorage<Self>) -> u64 {
            s.as_slice().iter().map(|c| c.observe()).count() as u64
        }
        fn slice_write(s: &mut WriteStorage<Self>, idx: u32, _target: Snap, p: u64) -> bool {
            s.as_mut_slice()[idx as usize].set_payload(p);
            true
        }
    };
    (dense) => {
        fn slice_check(s: &ReadStorage<Self>, exp: &BTreeMap<u32, Snap>) -> Result<u64, String> {
            let sl = s.as_slice();
            let mut got: Vec<Snap> = sl.iter().map(|c| c.observe()).collect();
            got.sort();
            let mut want: Vec<Snap> = exp.values().cloned().collect();
            want.sort();
            if got != want {
                return Err(format!(
                    "dense as_slice() is not a permutation of the stored values: {} slots vs {} values; first slots {:?}",
                    got.len(),
                    want.len(),
                    got.iter().take(6).collect::<Vec<_>>()
                ));
            }
            Ok(got.len() as u64)
        }
        fn slice_observe(s: &ReadStorage<Self>) -> u64 {
            s.as_slice().iter().map(|c| c.observe()).count() as u64
        }
        fn slice_write(s: &mut WriteStorage<Self>, _idx: u32, target: Snap, p: u64) -> bool {
            for c in s.as_mut_slice().iter_mut() {
                if c.0.id == target.id {
                    c.set_payload(p);
                    return true;
                }
            }
            false
        }
        fn structural(s: &ReadStorage<Self>) -> Result<bool, String> {
            s.unprotected_storage().verif_check(s.mask()).map(|_| true)
        }
    };
}

macro_rules! track_impl {
    (0) => {};
    ($t:tt) => {
        fn register_reader(s: &mut WriteStorage<Self>) -> Option<ReaderId<ComponentEvent>> {
            Some(s.register_reader())
        }
        fn read_events(s: &ReadStorage<Self>, r: &mut ReaderId<ComponentEvent>) -> Vec<ComponentEvent> {
            s.channel().read(r).cloned().collect()
        }
        fn set_emission(s: &mut WriteStorage<Self>, on: bool) {
            s.set_event_emission(on);
        }
    };
}

macro_rules! def_comp {
    ($name:ident, $storage:ty, $tracked:tt, $slice:tt) => {
        #[derive(Debug, Default)]
        pub struct $name(pub Val);
        impl Component for $name {
            type Storage = $storage;
        }
        impl Comp for $name {
            const NAME: &'static str = stringify!($name);
            const TRACKED: u8 = $tracked;
            fn make(payload: u64) -> (Self, Snap) {
                let v = Val::new(payload);
                let s = Snap { id: v.id, payload };
                ($name(v), s)
            }
            fn observe(&self) -> Snap {
                self.0.observe()
            }
            fn snap(&self) -> Snap {
                self.0.snap()
            }
            fn set_payload(&mut self, p: u64) {
                self.0.payload = p;
            }
            fn given(&self) {
                ledger::given(self.0.id)
            }
            fn returned(&self) {
                ledger::returned(self.0.id)
            }
            slice_impl!($slice);
            track_impl!($tracked);
            sgm_impl!($tracked);
        }
    };
}

def_comp!(CVec, VecStorage<Self>, 0, vec);
def_comp!(CDense, DenseVecStorage<Self>, 0, dense);
def_comp!(CDefault, DefaultVecStorage<Self>, 0, default);
def_comp!(CHash, HashMapStorage<Self>, 0, none);
def_comp!(CBTree, BTreeStorage<Self>, 0, none);
def_comp!(CFlagVec, FlaggedStorage<Self, VecStorage<Self>>, 1, none);
def_comp!(CFlagDense, FlaggedStorage<Self, DenseVecStorage<Self>>, 1, none);
def_comp!(CFlagDefault, FlaggedStorage<Self, DefaultVecStorage<Self>>, 1, none);
def_comp!(CFlagHash, FlaggedStorage<Self, HashMapStorage<Self>>, 1, none);
def_comp!(CFlagBTree, FlaggedStorage<Self, BTreeStorage<Self>>, 1, none);
def_comp!(CDerefVec, DerefFlaggedStorage<Self, VecStorage<Self>>, 2, none);
def_comp!(CDerefDense, DerefFlaggedStorage<Self, DenseVecStorage<Self>>, 2, none);
def_comp!(CDerefDefault, DerefFlaggedStorage<Self, DefaultVecStorage<Self>>, 2, none);
def_comp!(CDerefHash, DerefFlaggedStorage<Self, HashMapStorage<Self>>, 2, none);
def_comp!(CDerefBTree, DerefFlaggedStorage<Self, BTreeStorage<Self>>, 2, none);
// second plain instances so a world can hold two storages of the same kind
def_comp!(CVec2, VecStorage<Self>, 0, vec);
def_comp!(CDense2, DenseVecStorage<Self>, 0, dense);

macro_rules! def_zst {
    ($name:ident, $storage:ty, $tracked:tt) => {
        #[derive(Debug, Default)]
        pub struct $name(pub Z);
        impl Component for $name {
            type Storage = $storage;
        }
        impl Comp for $name {
            const NAME: &'static str = stringify!($name);
            const IS_ZST: bool = true;
            const TRACKED: u8 = $tracked;
            fn make(_payload: u64) -> (Self, Snap) {
                ($name(Z::new()), ZST_SNAP)
            }
            fn observe(&self) -> Snap {
                ZST_SNAP
            }
            fn snap(&self) -> Snap {
                ZST_SNAP
            }
            fn set_payload(&mut self, _p: u64) {}
            fn given(&self) {}
            fn returned(&self) {}
            track_impl!($tracked);
            sgm_impl!($tracked);
        }
    };
}
def_zst!(CNull, NullStorage<Self>, 0);
def_zst!(CFlagNull, FlaggedStorage<Self, NullStorage<Self>>, 1);

/// Access paths that take an entity handle (C03 lists them).
#[derive(Clone, Copy, Debug, PartialEq, Eq, PartialOrd, Ord)]
pub enum Path {
    Get,
    GetMut,
    Contains,
    Insert,
    Remove,
    Entry,
    EntryOrInsert,
    GetMutOrDefault,
    LendGetShared,
    LendGetMut,
    RestrictGetOther,
    RestrictGetOtherMut,
    RestrictReadGetOther,
    ReadGet,
    ReadContains,
    GetMutNoWrite,
    EntryReplace,
    EntryRemove,
    /// the same operations through the GenericReadStorage / GenericWriteStorage traits
    GenericGet,
    GenericGetMut,
    GenericInsert,
    GenericRemove,
}

pub const ALL_PATHS: [Path; 22] = [
    Path::Get,
    Path::GetMut,
    Path::Contains,
    Path::Insert,
    Path::Remove,
    Path::Entry,
    Path::EntryOrInsert,
    Path::GetMutOrDefault,
    Path::LendGetShared,
    Path::LendGetMut,
    Path::RestrictGetOther,
    Path::RestrictGetOtherMut,
    Path::RestrictReadGetOther,
    Path::ReadGet,
    Path::ReadContains,
    Path::GetMutNoWrite,
    Path::EntryReplace,
    Path::EntryRemove,
    Path::GenericGet,
    Path::GenericGetMut,
    Path::GenericInsert,
    Path::GenericRemove,
];

/// Outcome of one access, normalised so a model can predict it.
#[derive(Clone, Copy, Debug, PartialEq, Eq)]
pub enum Out {
    /// lookup found nothing / access refused
    Absent,
    /// lookup found this value (after an optional write)
    Found(Snap),
    Bool(bool),
    /// insert accepted; previous value if any; the new value's snap
    InsOk(Option<Snap>, Snap),
    /// insert refused; the new value's snap (must be destroyed by now)
    InsErr(Snap),
    EntryErr,
    EntryVacant,
    EntryOccupied(Snap),
    /// the path needs at least one member in the storage and there was none
    NotReached,
}

pub trait Driver: Send + Sync {
    fn name(&self) -> &'static str;
    fn is_zst(&self) -> bool;
    fn tracked(&self) -> u8;
    fn register(&self, w: &mut World, how: u8);
    fn access(&self, w: &World, e: Entity, path: Path, payload: u64) -> Out;
    /// (index, snap) of every member, ascending by index, read through a join.
    fn dump(&self, w: &World) -> Vec<(u32, Snap)>;
    fn mask(&self, w: &World) -> Vec<u32>;
    fn count(&self, w: &World) -> usize;
    fn is_empty(&self, w: &World) -> bool;
    fn builder_with<'a>(&self, b: EntityBuilder<'a>, payload: u64) -> (EntityBuilder<'a>, Snap);
    fn lazy_builder_with<'a>(&self, b: LazyBuilder<'a>, payload: u64) -> (LazyBuilder<'a>, Snap);
    fn res_builder_with<'a>(
        &self,
        w: &World,
        b: EntityResBuilder<'a>,
        payload: u64,
    ) -> (EntityResBuilder<'a>, Snap);
    fn lazy_insert(&self, lazy: &LazyUpdate, e: Entity, payload: u64) -> Snap;
    fn lazy_insert_all(&self, lazy: &LazyUpdate, items: &[(Entity, u64)]) -> Vec<Snap>;
    fn lazy_remove(&self, lazy: &LazyUpdate, e: Entity);
    fn clear(&self, w: &World);
    /// Observe every slot of the slice view (if any) and run the structural hook.
    fn observe_slices(&self, w: &World) -> Result<u64, String>;
    fn register_reader(&self, w: &World) -> Option<ReaderId<ComponentEvent>>;
    fn read_events(&self, w: &World, r: &mut ReaderId<ComponentEvent>) -> Vec<ComponentEvent>;
}

pub struct Drv<C: Comp>(pub PhantomData<fn() -> C>);

impl<C: Comp> Drv<C>
where
    C::Storage: Default,
{
    pub fn boxed() -> Box<dyn Driver> {
        Box::new(Drv::<C>(PhantomData))
    }
}

/// One small shared pool for the dispatchers that are only built to call `setup`.
fn setup_pool() -> std::sync::Arc<specs::rayon::ThreadPool> {
    static POOL: std::sync::OnceLock<std::sync::Arc<specs::rayon::ThreadPool>> = std::sync::OnceLock::new();
    POOL.get_or_init(|| std::sync::Arc::new(specs::rayon::ThreadPoolBuilder::new().num_threads(1).build().unwrap()))
        .clone()
}

struct SetupSysR<C>(PhantomData<fn() -> C>);
impl<'a, C: Comp> System<'a> for SetupSysR<C> {
    type SystemData = ReadStorage<'a, C>;
    fn run(&mut self, _: Self::SystemData) {}
}
struct SetupSysW<C>(PhantomData<fn() -> C>);
impl<'a, C: Comp> System<'a> for SetupSysW<C> {
    type SystemData = (Entities<'a>, WriteStorage<'a, C>);
    fn run(&mut self, _: Self::SystemData) {}
}

impl<C: Comp> Driver for Drv<C>
where
    C::Storage: Default,
{
    fn name(&self) -> &'static str {
        C::NAME
    }
    fn is_zst(&self) -> bool {
        C::IS_ZST
    }
    fn tracked(&self) -> u8 {
        C::TRACKED
    }

    fn register(&self, w: &mut World, how: u8) {
        // no thread pools under Miri (worker threads would be reported as leaks)
        let mut how = if cfg!(miri) { [0u8, 1, 2, 3, 6, 7][(how % 6) as usize] } else { how % 8 };
        if how >= 6 {
            if w.has_value::<specs::storage::MaskedStorage<C>>() {
                how -= 4; // never replace an existing storage: fall back to the plain setup paths
            } else {
                // the storage is put into the world as a bare resource first; system-data setup must
                // still make it known to the world (deletion has to purge it)
                w.insert(specs::storage::MaskedStorage::<C>::new(Default::default()));
                how -= 4;
            }
        }
        match how {
            0 => w.register::<C>(),
            1 => w.register_with_storage::<_, C>(Default::default),
            2 => w.setup::<ReadStorage<C>>(),
            3 => w.setup::<WriteStorage<C>>(),
            4 => {
                let mut d = DispatcherBuilder::new()
                    .with_pool(setup_pool())
                    .with(SetupSysR::<C>(PhantomData), "r", &[])
                    .build();
                d.setup(w);
            }
            _ => {
                let mut d = DispatcherBuilder::new()
                    .with_pool(setup_pool())
                    .with(SetupSysW::<C>(PhantomData), "w", &[])
                    .build();
                d.setup(w);
            }
        }
    }

    fn access(&self, w: &World, e: Entity, path: Path, payload: u64) -> Out {
        match path {
            Path::ReadGet => {
                let s = w.read_storage::<C>();
                match s.get(e) {
                    Some(c) => Out::Found(c.observe()),
                    None => Out::Absent,
                }
            }
            Path::ReadContains => Out::Bool(w.read_storage::<C>().contains(e)),
            Path::Get => {
                let s = w.write_storage::<C>();
                match s.get(e) {
                    Some(c) => Out::Found(c.observe()),
                    None => Out::Absent,
                }
            }
            Path::GetMut => {
                let mut s = w.write_storage::<C>();
                let r = match s.get_mut(e) {
                    Some(mut c) => {
                        c.access_mut().set_payload(payload);
                        Out::Found(c.observe())
                    }
                    None => Out::Absent,
                };
                r
            }
            Path::Contains => Out::Bool(w.write_storage::<C>().contains(e)),
            Path::GenericGet => {
                use specs::storage::GenericReadStorage;
                let s = w.read_storage::<C>();
                let r = match GenericReadStorage::get(&s, e) {
                    Some(c) => Out::Found(c.observe()),
                    None => Out::Absent,
                };
                r
            }
            Path::GenericGetMut => {
                use specs::storage::GenericWriteStorage;
                let mut s = w.write_storage::<C>();
                let r = match GenericWriteStorage::get_mut(&mut &mut s, e) {
                    Some(mut c) => {
                        c.access_mut().set_payload(payload);
                        Out::Found(c.observe())
                    }
                    None => Out::Absent,
                };
                r
            }
            Path::GenericInsert => {
                use specs::storage::GenericWriteStorage;
                let mut s = w.write_storage::<C>();
                let (c, snap) = C::make(payload);
                c.given();
                match GenericWriteStorage::insert(&mut s, e, c) {
                    Ok(Some(old)) => {
                        old.returned();
                        Out::InsOk(Some(old.snap()), snap)
                    }
                    Ok(None) => Out::InsOk(None, snap),
                    Err(_) => Out::InsErr(snap),
                }
            }
            Path::GenericRemove => {
                use specs::storage::GenericWriteStorage;
                let mut s = w.write_storage::<C>();
                if payload % 2 == 0 {
                    GenericWriteStorage::remove(&mut s, e);
                } else {
                    GenericWriteStorage::remove(&mut &mut s, e);
                }
                Out::Absent
            }
            Path::GetMutNoWrite => {
                let mut s = w.write_storage::<C>();
                let r = match s.get_mut(e) {
                    Some(c) => Out::Found(c.observe()),
                    None => Out::Absent,
                };
                r
            }
            Path::EntryReplace => {
                let mut s = w.write_storage::<C>();
                let r = match s.entry(e) {
                    Err(_) => Out::EntryErr,
                    Ok(entry) => {
                        let (c, snap) = C::make(payload);
                        c.given();
                        match entry.replace(c) {
                            Some(old) => {
                                old.returned();
                                Out::InsOk(Some(old.snap()), snap)
                            }
                            None => Out::InsOk(None, snap),
                        }
                    }
                };
                r
            }
            Path::EntryRemove => {
                let mut s = w.write_storage::<C>();
                let r = match s.entry(e) {
                    Err(_) => Out::EntryErr,
                    Ok(StorageEntry::Vacant(_)) => Out::EntryVacant,
                    Ok(StorageEntry::Occupied(o)) => {
                        let old = o.remove();
                        old.returned();
                        Out::Found(old.snap())
                    }
                };
                r
            }
            Path::Insert => {
                let mut s = w.write_storage::<C>();
                let (c, snap) = C::make(payload);
                c.given();
                match s.insert(e, c) {
                    Ok(Some(old)) => {
                        old.returned();
                        Out::InsOk(Some(old.snap()), snap)
                    }
                    Ok(None) => Out::InsOk(None, snap),
                    Err(_) => Out::InsErr(snap),
                }
            }
            Path::Remove => {
                let mut s = w.write_storage::<C>();
                match s.remove(e) {
                    Some(old) => {
                        old.returned();
                        Out::Found(old.snap())
                    }
                    None => Out::Absent,
                }
            }
            Path::Entry => {
                let mut s = w.write_storage::<C>();
                let r = match s.entry(e) {
                    Err(_) => Out::EntryErr,
                    Ok(StorageEntry::Vacant(_)) => Out::EntryVacant,
                    Ok(StorageEntry::Occupied(o)) => Out::EntryOccupied(o.get().observe()),
                };
                r
            }
            Path::EntryOrInsert => {
                let mut s = w.write_storage::<C>();
                let r = match s.entry(e) {
                    Err(_) => Out::EntryErr,
                    Ok(entry) => {
                        let c = entry.or_insert_with(|| {
                            let (c, _) = C::make(payload);
                            c.given();
                            c
                        });
                        Out::Found(c.observe())
                    }
                };
                r
            }
            Path::GetMutOrDefault => {
                use specs::storage::GenericWriteStorage;
                let mut s = w.write_storage::<C>();
                let r = match GenericWriteStorage::get_mut_or_default(&mut s, e) {
                    Some(c) => Out::Found(c.observe()),
                    None => Out::Absent,
                };
                r
            }
            Path::LendGetShared => {
                let s = w.write_storage::<C>();
                let ents = w.entities();
                let mut j = (&s).lend_join();
                let r = match j.get(e, &ents) {
                    Some(c) => Out::Found(c.observe()),
                    None => Out::Absent,
                };
                r
            }
            Path::LendGetMut => {
                let mut s = w.write_storage::<C>();
                let ents = w.entities();
                let mut j = (&mut s).lend_join();
                let r = match j.get(e, &ents) {
                    Some(mut c) => {
                        c.access_mut().set_payload(payload);
                        Out::Found(c.observe())
                    }
                    None => Out::Absent,
                };
                r
            }
            Path::RestrictGetOther => {
                let mut s = w.write_storage::<C>();
                let mut r = s.restrict_mut();
                let mut j = (&mut r).lend_join();
                let out = match j.next() {
                    None => Out::NotReached,
                    Some(item) => match item.get_other(e) {
                        Some(c) => Out::Found(c.observe()),
                        None => Out::Absent,
                    },
                };
                out
            }
            Path::RestrictGetOtherMut => {
                let mut s = w.write_storage::<C>();
                let mut r = s.restrict_mut();
                let mut j = (&mut r).lend_join();
                let out = match j.next() {
                    None => Out::NotReached,
                    Some(mut item) => match item.get_other_mut(e) {
                        Some(mut c) => {
                            c.access_mut().set_payload(payload);
                            Out::Found(c.observe())
                        }
                        None => Out::Absent,
                    },
                };
                out
            }
            Path::RestrictReadGetOther => {
                let s = w.read_storage::<C>();
                let r = s.restrict();
                let out = match (&r).join().next() {
                    None => Out::NotReached,
                    Some(item) => match item.get_other(e) {
                        Some(c) => Out::Found(c.observe()),
                        None => Out::Absent,
                    },
                };
                out
            }
        }
    }

    fn dump(&self, w: &World) -> Vec<(u32, Snap)> {
        let s = w.read_storage::<C>();
        (s.mask(), &s).join().map(|(i, c)| (i, c.observe())).collect()
    }
    fn mask(&self, w: &World) -> Vec<u32> {
        let s = w.read_storage::<C>();
        s.mask().join().collect()
    }
    fn count(&self, w: &World) -> usize {
        w.read_storage::<C>().count()
    }
    fn is_empty(&self, w: &World) -> bool {
        w.read_storage::<C>().is_empty()
    }

    fn builder_with<'a>(&self, b: EntityBuilder<'a>, payload: u64) -> (EntityBuilder<'a>, Snap) {
        let (c, snap) = C::make(payload);
        c.given();
        (b.with(c), snap)
    }
    fn lazy_builder_with<'a>(&self, b: LazyBuilder<'a>, payload: u64) -> (LazyBuilder<'a>, Snap) {
        let (c, snap) = C::make(payload);
        c.given();
        (b.with(c), snap)
    }
    fn res_builder_with<'a>(
        &self,
        w: &World,
        b: EntityResBuilder<'a>,
        payload: u64,
    ) -> (EntityResBuilder<'a>, Snap) {
        let (c, snap) = C::make(payload);
        c.given();
        let mut s = w.write_storage::<C>();
        (b.with(c, &mut s), snap)
    }
    fn lazy_insert(&self, lazy: &LazyUpdate, e: Entity, payload: u64) -> Snap {
        let (c, snap) = C::make(payload);
        c.given();
        lazy.insert(e, c);
        snap
    }
    fn lazy_insert_all(&self, lazy: &LazyUpdate, items: &[(Entity, u64)]) -> Vec<Snap> {
        let mut snaps = Vec::new();
        let mut v = Vec::new();
        for &(e, p) in items {
            let (c, snap) = C::make(p);
            c.given();
            snaps.push(snap);
            v.push((e, c));
        }
        lazy.insert_all(v);
        snaps
    }
    fn lazy_remove(&self, lazy: &LazyUpdate, e: Entity) {
        lazy.remove::<C>(e);
    }
    fn clear(&self, w: &World) {
        w.write_storage::<C>().clear();
    }
    fn observe_slices(&self, w: &World) -> Result<u64, String> {
        let s = w.read_storage::<C>();
        let n = C::slice_observe(&s);
        C::structural(&s)?;
        Ok(n)
    }
    fn register_reader(&self, w: &World) -> Option<ReaderId<ComponentEvent>> {
        let mut s = w.write_storage::<C>();
        C::register_reader(&mut s)
    }
    fn read_events(&self, w: &World, r: &mut ReaderId<ComponentEvent>) -> Vec<ComponentEvent> {
        let s = w.read_storage::<C>();
        C::read_events(&s, r)
    }
}

/// Silence "unused" for EntitiesRes import on some cfgs.
#[allow(dead_code)]
fn _t(_: &EntitiesRes) {}

/// The pool of storages a world engine can draw from.
pub fn all_drivers() -> Vec<Box<dyn Driver>> {
    vec![
        Drv::<CVec>::boxed(),
        Drv::<CDense>::boxed(),
        Drv::<CDefault>::boxed(),
        Drv::<CHash>::boxed(),
        Drv::<CBTree>::boxed(),
        Drv::<CNull>::boxed(),
        Drv::<CFlagDense>::boxed(),
        Drv::<CDerefVec>::boxed(),
        Drv::<CFlagHash>::boxed(),
        Drv::<CDerefDefault>::boxed(),
        Drv::<CVec2>::boxed(),
        Drv::<CDense2>::boxed(),
        Drv::<CFlagNull>::boxed(),
    ]
}

/// Every storage kind / wrapper combination.
pub fn every_driver() -> Vec<Box<dyn Driver>> {
    vec![
        Drv::<CVec>::boxed(),
        Drv::<CDense>::boxed(),
        Drv::<CDefault>::boxed(),
        Drv::<CHash>::boxed(),
        Drv::<CBTree>::boxed(),
        Drv::<CNull>::boxed(),
        Drv::<CFlagVec>::boxed(),
        Drv::<CFlagDense>::boxed(),
        Drv::<CFlagDefault>::boxed(),
        Drv::<CFlagHash>::boxed(),
        Drv::<CFlagBTree>::boxed(),
        Drv::<CDerefVec>::boxed(),
        Drv::<CDerefDense>::boxed(),
        Drv::<CDerefDefault>::boxed(),
        Drv::<CDerefHash>::boxed(),
        Drv::<CDerefBTree>::boxed(),
        Drv::<CFlagNull>::boxed(),
    ]
}
