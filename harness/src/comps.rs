//! Instrumented component types (one per storage kind / wrapper combination)
//! and an object-safe driver so engines can address storages by number.

use std::marker::PhantomData;

use specs::prelude::*;
use specs::storage::{
    AccessMut, BTreeStorage, DefaultVecStorage, DenseVecStorage, DerefFlaggedStorage,
    FlaggedStorage, HashMapStorage, NullStorage, StorageEntry, VecStorage,
};
use specs::world::{EntitiesRes, EntityResBuilder, LazyBuilder};
use specs::{Builder, LendJoin};

use crate::ledger::{self, Snap, Val, Z, ZST_SNAP};

/// What the harness needs from an instrumented component type.
pub trait Comp: Component + Send + Sync + Default + 'static {
    const NAME: &'static str;
    const IS_ZST: bool = false;
    const TRACKED: u8 = 0; // 0 = none, 1 = FlaggedStorage, 2 = DerefFlaggedStorage
    /// Wrap a fresh harness value (for ZST: the value is released, a Z is born).
    fn make(payload: u64) -> (Self, Snap);
    /// Look at a component exposed by the world.
    fn observe(&self) -> Snap;
    /// Look at a component handed back to the harness.
    fn snap(&self) -> Snap;
    fn set_payload(&mut self, p: u64);
    /// Tell the ledger this value is being moved into / out of the world.
    fn given(&self);
    fn returned(&self);
}

macro_rules! def_comp {
    ($name:ident, $storage:ty, $tracked:expr) => {
        #[derive(Debug, Default)]
        pub struct $name(pub Val);
        impl Component for $name {
            type Storage = $storage;
        }
        impl Comp for $name {
            const NAME: &'static str = stringify!($name);
            const TRACKED: u8 = $tracked;
            fn make(payload: u64) -> (Self, Snap) {
                let v = Val::new(payload);
                let s = Snap { id: v.id, payload };
                ($name(v), s)
            }
            fn observe(&self) -> Snap {
                self.0.observe()
            }
            fn snap(&self) -> Snap {
                self.0.snap()
            }
            fn set_payload(&mut self, p: u64) {
                self.0.payload = p;
            }
            fn given(&self) {
                ledger::given(self.0.id)
            }
            fn returned(&self) {
                ledger::returned(self.0.id)
            }
        }
    };
}

def_comp!(CVec, VecStorage<Self>, 0);
def_comp!(CDense, DenseVecStorage<Self>, 0);
def_comp!(CDefault, DefaultVecStorage<Self>, 0);
def_comp!(CHash, HashMapStorage<Self>, 0);
def_comp!(CBTree, BTreeStorage<Self>, 0);
def_comp!(CFlagVec, FlaggedStorage<Self, VecStorage<Self>>, 1);
def_comp!(CFlagDense, FlaggedStorage<Self, DenseVecStorage<Self>>, 1);
def_comp!(CFlagDefault, FlaggedStorage<Self, DefaultVecStorage<Self>>, 1);
def_comp!(CFlagHash, FlaggedStorage<Self, HashMapStorage<Self>>, 1);
def_comp!(CFlagBTree, FlaggedStorage<Self, BTreeStorage<Self>>, 1);
def_comp!(CDerefVec, DerefFlaggedStorage<Self, VecStorage<Self>>, 2);
def_comp!(CDerefDense, DerefFlaggedStorage<Self, DenseVecStorage<Self>>, 2);
def_comp!(CDerefDefault, DerefFlaggedStorage<Self, DefaultVecStorage<Self>>, 2);
def_comp!(CDerefHash, DerefFlaggedStorage<Self, HashMapStorage<Self>>, 2);
def_comp!(CDerefBTree, DerefFlaggedStorage<Self, BTreeStorage<Self>>, 2);
// second plain instances so a world can hold two storages of the same kind
def_comp!(CVec2, VecStorage<Self>, 0);
def_comp!(CDense2, DenseVecStorage<Self>, 0);

macro_rules! def_zst {
    ($name:ident, $storage:ty, $tracked:expr) => {
        #[derive(Debug, Default)]
        pub struct $name(pub Z);
        impl Component for $name {
            type Storage = $storage;
        }
        impl Comp for $name {
            const NAME: &'static str = stringify!($name);
            const IS_ZST: bool = true;
            const TRACKED: u8 = $tracked;
            fn make(_payload: u64) -> (Self, Snap) {
                ($name(Z::new()), ZST_SNAP)
            }
            fn observe(&self) -> Snap {
                ZST_SNAP
            }
            fn snap(&self) -> Snap {
                ZST_SNAP
            }
            fn set_payload(&mut self, _p: u64) {}
            fn given(&self) {}
            fn returned(&self) {}
        }
    };
}
def_zst!(CNull, NullStorage<Self>, 0);
def_zst!(CFlagNull, FlaggedStorage<Self, NullStorage<Self>>, 1);

/// Access paths that take an entity handle (C03 lists them).
#[derive(Clone, Copy, Debug, PartialEq, Eq, PartialOrd, Ord)]
pub enum Path {
    Get,
    GetMut,
    Contains,
    Insert,
    Remove,
    Entry,
    EntryOrInsert,
    GetMutOrDefault,
    LendGetShared,
    LendGetMut,
    RestrictGetOther,
    RestrictGetOtherMut,
    RestrictReadGetOther,
    ReadGet,
    ReadContains,
}

pub const ALL_PATHS: [Path; 15] = [
    Path::Get,
    Path::GetMut,
    Path::Contains,
    Path::Insert,
    Path::Remove,
    Path::Entry,
    Path::EntryOrInsert,
    Path::GetMutOrDefault,
    Path::LendGetShared,
    Path::LendGetMut,
    Path::RestrictGetOther,
    Path::RestrictGetOtherMut,
    Path::RestrictReadGetOther,
    Path::ReadGet,
    Path::ReadContains,
];

/// Outcome of one access, normalised so a model can predict it.
#[derive(Clone, Copy, Debug, PartialEq, Eq)]
pub enum Out {
    /// lookup found nothing / access refused
    Absent,
    /// lookup found this value (after an optional write)
    Found(Snap),
    Bool(bool),
    /// insert accepted; previous value if any; the new value's snap
    InsOk(Option<Snap>, Snap),
    /// insert refused; the new value's snap (must be destroyed by now)
    InsErr(Snap),
    EntryErr,
    EntryVacant,
    EntryOccupied(Snap),
    /// the path needs at least one member in the storage and there was none
    NotReached,
}

pub trait Driver: Send + Sync {
    fn name(&self) -> &'static str;
    fn is_zst(&self) -> bool;
    fn tracked(&self) -> u8;
    fn register(&self, w: &mut World, how: u8);
    fn access(&self, w: &World, e: Entity, path: Path, payload: u64) -> Out;
    /// (index, snap) of every member, ascending by index, read through a join.
    fn dump(&self, w: &World) -> Vec<(u32, Snap)>;
    fn mask(&self, w: &World) -> Vec<u32>;
    fn count(&self, w: &World) -> usize;
    fn is_empty(&self, w: &World) -> bool;
    fn builder_with<'a>(&self, b: EntityBuilder<'a>, payload: u64) -> (EntityBuilder<'a>, Snap);
    fn lazy_builder_with<'a>(&self, b: LazyBuilder<'a>, payload: u64) -> (LazyBuilder<'a>, Snap);
    fn res_builder_with<'a>(
        &self,
        w: &World,
        b: EntityResBuilder<'a>,
        payload: u64,
    ) -> (EntityResBuilder<'a>, Snap);
    fn lazy_insert(&self, lazy: &LazyUpdate, e: Entity, payload: u64) -> Snap;
    fn lazy_insert_all(&self, lazy: &LazyUpdate, items: &[(Entity, u64)]) -> Vec<Snap>;
    fn lazy_remove(&self, lazy: &LazyUpdate, e: Entity);
    fn clear(&self, w: &World);
}

pub struct Drv<C: Comp>(pub PhantomData<fn() -> C>);

impl<C: Comp> Drv<C>
where
    C::Storage: Default,
{
    pub fn boxed() -> Box<dyn Driver> {
        Box::new(Drv::<C>(PhantomData))
    }
}

struct SetupSysR<C>(PhantomData<fn() -> C>);
impl<'a, C: Comp> System<'a> for SetupSysR<C> {
    type SystemData = ReadStorage<'a, C>;
    fn run(&mut self, _: Self::SystemData) {}
}
struct SetupSysW<C>(PhantomData<fn() -> C>);
impl<'a, C: Comp> System<'a> for SetupSysW<C> {
    type SystemData = (Entities<'a>, WriteStorage<'a, C>);
    fn run(&mut self, _: Self::SystemData) {}
}

impl<C: Comp> Driver for Drv<C>
where
    C::Storage: Default,
{
    fn name(&self) -> &'static str {
        C::NAME
    }
    fn is_zst(&self) -> bool {
        C::IS_ZST
    }
    fn tracked(&self) -> u8 {
        C::TRACKED
    }

    fn register(&self, w: &mut World, how: u8) {
        match how % 6 {
            0 => w.register::<C>(),
            1 => w.register_with_storage::<_, C>(Default::default),
            2 => w.setup::<ReadStorage<C>>(),
            3 => w.setup::<WriteStorage<C>>(),
            4 => {
                let mut d = DispatcherBuilder::new()
                    .with(SetupSysR::<C>(PhantomData), "r", &[])
                    .build();
                d.setup(w);
            }
            _ => {
                let mut d = DispatcherBuilder::new()
                    .with(SetupSysW::<C>(PhantomData), "w", &[])
                    .build();
                d.setup(w);
            }
        }
    }

    fn access(&self, w: &World, e: Entity, path: Path, payload: u64) -> Out {
        match path {
            Path::ReadGet => {
                let s = w.read_storage::<C>();
                match s.get(e) {
                    Some(c) => Out::Found(c.observe()),
                    None => Out::Absent,
                }
            }
            Path::ReadContains => Out::Bool(w.read_storage::<C>().contains(e)),
            Path::Get => {
                let s = w.write_storage::<C>();
                match s.get(e) {
                    Some(c) => Out::Found(c.observe()),
                    None => Out::Absent,
                }
            }
            Path::GetMut => {
                let mut s = w.write_storage::<C>();
                let r = match s.get_mut(e) {
                    Some(mut c) => {
                        c.access_mut().set_payload(payload);
                        Out::Found(c.observe())
                    }
                    None => Out::Absent,
                };
                r
            }
            Path::Contains => Out::Bool(w.write_storage::<C>().contains(e)),
            Path::Insert => {
                let mut s = w.write_storage::<C>();
                let (c, snap) = C::make(payload);
                c.given();
                match s.insert(e, c) {
                    Ok(Some(old)) => {
                        old.returned();
                        Out::InsOk(Some(old.snap()), snap)
                    }
                    Ok(None) => Out::InsOk(None, snap),
                    Err(_) => Out::InsErr(snap),
                }
            }
            Path::Remove => {
                let mut s = w.write_storage::<C>();
                match s.remove(e) {
                    Some(old) => {
                        old.returned();
                        Out::Found(old.snap())
                    }
                    None => Out::Absent,
                }
            }
            Path::Entry => {
                let mut s = w.write_storage::<C>();
                let r = match s.entry(e) {
                    Err(_) => Out::EntryErr,
                    Ok(StorageEntry::Vacant(_)) => Out::EntryVacant,
                    Ok(StorageEntry::Occupied(o)) => Out::EntryOccupied(o.get().observe()),
                };
                r
            }
            Path::EntryOrInsert => {
                let mut s = w.write_storage::<C>();
                let r = match s.entry(e) {
                    Err(_) => Out::EntryErr,
                    Ok(entry) => {
                        let c = entry.or_insert_with(|| {
                            let (c, _) = C::make(payload);
                            c.given();
                            c
                        });
                        Out::Found(c.observe())
                    }
                };
                r
            }
            Path::GetMutOrDefault => {
                use specs::storage::GenericWriteStorage;
                let mut s = w.write_storage::<C>();
                let r = match GenericWriteStorage::get_mut_or_default(&mut s, e) {
                    Some(c) => Out::Found(c.observe()),
                    None => Out::Absent,
                };
                r
            }
            Path::LendGetShared => {
                let s = w.write_storage::<C>();
                let ents = w.entities();
                let mut j = (&s).lend_join();
                let r = match j.get(e, &ents) {
                    Some(c) => Out::Found(c.observe()),
                    None => Out::Absent,
                };
                r
            }
            Path::LendGetMut => {
                let mut s = w.write_storage::<C>();
                let ents = w.entities();
                let mut j = (&mut s).lend_join();
                let r = match j.get(e, &ents) {
                    Some(mut c) => {
                        c.access_mut().set_payload(payload);
                        Out::Found(c.observe())
                    }
                    None => Out::Absent,
                };
                r
            }
            Path::RestrictGetOther => {
                let mut s = w.write_storage::<C>();
                let mut r = s.restrict_mut();
                let mut j = (&mut r).lend_join();
                let out = match j.next() {
                    None => Out::NotReached,
                    Some(item) => match item.get_other(e) {
                        Some(c) => Out::Found(c.observe()),
                        None => Out::Absent,
                    },
                };
                out
            }
            Path::RestrictGetOtherMut => {
                let mut s = w.write_storage::<C>();
                let mut r = s.restrict_mut();
                let mut j = (&mut r).lend_join();
                let out = match j.next() {
                    None => Out::NotReached,
                    Some(mut item) => match item.get_other_mut(e) {
                        Some(mut c) => {
                            c.access_mut().set_payload(payload);
                            Out::Found(c.observe())
                        }
                        None => Out::Absent,
                    },
                };
                out
            }
            Path::RestrictReadGetOther => {
                let s = w.read_storage::<C>();
                let r = s.restrict();
                let out = match (&r).join().next() {
                    None => Out::NotReached,
                    Some(item) => match item.get_other(e) {
                        Some(c) => Out::Found(c.observe()),
                        None => Out::Absent,
                    },
                };
                out
            }
        }
    }

    fn dump(&self, w: &World) -> Vec<(u32, Snap)> {
        let s = w.read_storage::<C>();
        (s.mask(), &s).join().map(|(i, c)| (i, c.observe())).collect()
    }
    fn mask(&self, w: &World) -> Vec<u32> {
        let s = w.read_storage::<C>();
        s.mask().join().collect()
    }
    fn count(&self, w: &World) -> usize {
        w.read_storage::<C>().count()
    }
    fn is_empty(&self, w: &World) -> bool {
        w.read_storage::<C>().is_empty()
    }

    fn builder_with<'a>(&self, b: EntityBuilder<'a>, payload: u64) -> (EntityBuilder<'a>, Snap) {
        let (c, snap) = C::make(payload);
        c.given();
        (b.with(c), snap)
    }
    fn lazy_builder_with<'a>(&self, b: LazyBuilder<'a>, payload: u64) -> (LazyBuilder<'a>, Snap) {
        let (c, snap) = C::make(payload);
        c.given();
        (b.with(c), snap)
    }
    fn res_builder_with<'a>(
        &self,
        w: &World,
        b: EntityResBuilder<'a>,
        payload: u64,
    ) -> (EntityResBuilder<'a>, Snap) {
        let (c, snap) = C::make(payload);
        c.given();
        let mut s = w.write_storage::<C>();
        (b.with(c, &mut s), snap)
    }
    fn lazy_insert(&self, lazy: &LazyUpdate, e: Entity, payload: u64) -> Snap {
        let (c, snap) = C::make(payload);
        c.given();
        lazy.insert(e, c);
        snap
    }
    fn lazy_insert_all(&self, lazy: &LazyUpdate, items: &[(Entity, u64)]) -> Vec<Snap> {
        let mut snaps = Vec::new();
        let mut v = Vec::new();
        for &(e, p) in items {
            let (c, snap) = C::make(p);
            c.given();
            snaps.push(snap);
            v.push((e, c));
        }
        lazy.insert_all(v);
        snaps
    }
    fn lazy_remove(&self, lazy: &LazyUpdate, e: Entity) {
        lazy.remove::<C>(e);
    }
    fn clear(&self, w: &World) {
        w.write_storage::<C>().clear();
    }
}

/// Silence "unused" for EntitiesRes import on some cfgs.
#[allow(dead_code)]
fn _t(_: &EntitiesRes) {}

/// The pool of storages a world engine can draw from.
pub fn all_drivers() -> Vec<Box<dyn Driver>> {
    vec![
        Drv::<CVec>::boxed(),
        Drv::<CDense>::boxed(),
        Drv::<CDefault>::boxed(),
        Drv::<CHash>::boxed(),
        Drv::<CBTree>::boxed(),
        Drv::<CNull>::boxed(),
        Drv::<CFlagDense>::boxed(),
        Drv::<CDerefVec>::boxed(),
        Drv::<CFlagHash>::boxed(),
        Drv::<CDerefDefault>::boxed(),
        Drv::<CVec2>::boxed(),
        Drv::<CDense2>::boxed(),
        Drv::<CFlagNull>::boxed(),
    ]
}
