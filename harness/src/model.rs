//! Reference models: entity lifecycle + per-storage component maps + lazy queue.
//! Deliberately naive, safe Rust. The model never predicts concrete index or
//! generation values; it only checks relations on what the real code returns.

use std::collections::{BTreeMap, BTreeSet, VecDeque};

use specs::Entity;

use crate::ledger::Snap;

#[derive(Clone, Copy, PartialEq, Eq, Debug)]
pub enum St {
    Live,
    /// created through shared access, becomes `Live` at the next maintain
    Pending,
    Dead,
}

#[derive(Clone, Copy, Debug)]
pub struct Info {
    pub st: St,
    pub pending_delete: bool,
}

/// A (property id, message) pair produced by a model check.
pub type Fail = (&'static str, String);

#[derive(Default)]
pub struct Model {
    pub handles: Vec<Entity>,
    pub info: BTreeMap<Entity, Info>,
    /// index -> the handle currently occupying it (Live or Pending)
    pub occupant: BTreeMap<u32, Entity>,
    pub dead: Vec<Entity>,
    pub comps: Vec<BTreeMap<Entity, Snap>>,
    pub peak: usize,
    pub index_reuses: u64,
    pub max_gen: i32,
    pub created_while_pending: u64,
    pub seen_idx: BTreeSet<u32>,
}

impl Model {
    pub fn new(nstorages: usize) -> Model {
        Model { comps: (0..nstorages).map(|_| BTreeMap::new()).collect(), ..Default::default() }
    }

    pub fn state(&self, h: Entity) -> St {
        self.info.get(&h).map(|i| i.st).unwrap_or(St::Dead)
    }
    pub fn not_dead(&self, h: Entity) -> bool {
        matches!(self.info.get(&h), Some(i) if i.st != St::Dead)
    }
    pub fn is_live(&self, h: Entity) -> bool {
        matches!(self.info.get(&h), Some(i) if i.st == St::Live)
    }
    pub fn n_not_dead(&self) -> usize {
        self.occupant.len()
    }
    pub fn any_awaiting_maintain(&self) -> bool {
        self.info.values().any(|i| i.st == St::Pending || (i.st != St::Dead && i.pending_delete))
    }

    /// A creation call returned `h`. Checks C01 (uniqueness) and C17 (bound).
    pub fn created(&mut self, h: Entity, pending: bool) -> Result<(), Fail> {
        if self.info.contains_key(&h) {
            return Err((
                "C01",
                format!("creation returned handle {:?} which was already returned earlier in this world", h),
            ));
        }
        if let Some(o) = self.occupant.get(&h.id()) {
            return Err((
                "C01",
                format!("creation returned {:?} while {:?} (not yet dead) occupies the same index", h, o),
            ));
        }
        if h.gen().id() <= 0 {
            return Err(("C01", format!("creation returned a handle with a dead generation: {:?}", h)));
        }
        if self.any_awaiting_maintain() {
            self.created_while_pending += 1;
        }
        if !self.seen_idx.insert(h.id()) {
            self.index_reuses += 1;
        }
        self.max_gen = self.max_gen.max(h.gen().id());
        self.handles.push(h);
        self.info.insert(h, Info { st: if pending { St::Pending } else { St::Live }, pending_delete: false });
        self.occupant.insert(h.id(), h);
        self.peak = self.peak.max(self.occupant.len());
        if (h.id() as usize) >= self.peak {
            return Err((
                "C17",
                format!(
                    "new entity got index {} but at most {} entities were ever simultaneously not yet dead (a free lower index was not recycled)",
                    h.id(),
                    self.peak
                ),
            ));
        }
        Ok(())
    }

    /// The entity dies now. Returns the component snaps that must be destroyed.
    pub fn kill(&mut self, h: Entity) -> Vec<(usize, Snap)> {
        let mut destroyed = Vec::new();
        if let Some(i) = self.info.get_mut(&h) {
            if i.st != St::Dead {
                i.st = St::Dead;
                i.pending_delete = false;
                self.occupant.remove(&h.id());
                self.dead.push(h);
                for (k, m) in self.comps.iter_mut().enumerate() {
                    if let Some(s) = m.remove(&h) {
                        destroyed.push((k, s));
                    }
                }
            }
        }
        destroyed
    }

    pub fn request_delete(&mut self, h: Entity) {
        if let Some(i) = self.info.get_mut(&h) {
            if i.st != St::Dead {
                i.pending_delete = true;
            }
        }
    }

    /// Entity part of maintain: creations first, then deletions.
    pub fn merge(&mut self) -> Vec<(usize, Snap)> {
        let mut destroyed = Vec::new();
        let mut to_kill = Vec::new();
        for (h, i) in self.info.iter_mut() {
            if i.st == St::Pending {
                i.st = St::Live;
            }
            if i.st == St::Live && i.pending_delete {
                to_kill.push(*h);
            }
        }
        for h in to_kill {
            destroyed.extend(self.kill(h));
        }
        destroyed
    }

    pub fn not_dead_sorted(&self) -> Vec<Entity> {
        self.occupant.values().cloned().collect()
    }

    pub fn expected_dump(&self, k: usize) -> Vec<(u32, Snap)> {
        let mut v: Vec<(u32, Snap)> = self.comps[k].iter().map(|(e, s)| (e.id(), *s)).collect();
        v.sort();
        v
    }

    pub fn pending_delete_indices(&self) -> BTreeSet<u32> {
        self.info
            .iter()
            .filter(|(_, i)| i.st != St::Dead && i.pending_delete)
            .map(|(h, _)| h.id())
            .collect()
    }
}

/// Lazy-queue model: what was queued, in FIFO order.
#[derive(Clone, Debug)]
pub enum Action {
    Insert { storage: usize, target: Entity, snap: Snap },
    InsertAll { storage: usize, items: Vec<(Entity, Snap)> },
    Remove { storage: usize, target: Entity },
    Script { id: u64 },
}

pub type Queue = VecDeque<Action>;

/// Structural invariants of the entity allocator at a quiescent point, plus the
/// cross-check against the lifecycle model (verif-hooks snapshot).
pub fn check_allocator(
    snap: &specs::verif::AllocatorSnapshot,
    model_occ: &BTreeSet<u32>,
    model_pd: &BTreeSet<u32>,
) -> Result<(), Fail> {
        let alive: BTreeSet<u32> = snap.alive.iter().cloned().collect();
        let raised: BTreeSet<u32> = snap.raised.iter().cloned().collect();
        let killed: BTreeSet<u32> = snap.killed.iter().cloned().collect();
        for (i, g) in snap.generations.iter().enumerate() {
            if (*g > 0) != alive.contains(&(i as u32)) {
                return Err(("C01", format!("allocator: index {} has generation {} but alive bit = {}", i, g, alive.contains(&(i as u32)))));
            }
        }
        for i in alive.iter().chain(raised.iter()) {
            if (*i as usize) >= snap.max_id {
                return Err(("C01", format!("allocator: index {} is alive/raised but max_id = {}", i, snap.max_id)));
            }
        }
        if let Some(i) = alive.iter().find(|i| (**i as usize) >= snap.generations.len()) {
            return Err(("C01", format!("allocator: alive index {} has no generation entry", i)));
        }
        if let Some(i) = alive.intersection(&raised).next() {
            return Err(("C01", format!("allocator: index {} is both alive and raised", i)));
        }
        if let Some(i) = killed.iter().find(|i| !alive.contains(i) && !raised.contains(i)) {
            return Err(("C01", format!("allocator: index {} has a pending kill but is neither alive nor raised", i)));
        }
        let mut seen = BTreeSet::new();
        for c in &snap.cache {
            if !seen.insert(*c) {
                return Err(("C01", format!("allocator: free list contains index {} twice", c)));
            }
            if alive.contains(c) || raised.contains(c) {
                return Err(("C01", format!("allocator: free list contains index {} which is occupied", c)));
            }
            if (*c as usize) >= snap.max_id {
                return Err(("C01", format!("allocator: free list contains never-used index {}", c)));
            }
        }
        let occupied: BTreeSet<u32> = alive.union(&raised).cloned().collect();
        if occupied != *model_occ {
            return Err(("C02", format!("allocator: alive∪raised = {:?} but not-yet-dead indices are {:?}", trunc(&occupied), trunc(model_occ))));
        }
        if killed != *model_pd {
            return Err(("C02", format!("allocator: pending kills {:?} but deletions awaiting maintain are {:?}", trunc(&killed), trunc(model_pd))));
        }
        let leaked: Vec<u32> = (0..snap.max_id as u32).filter(|i| !occupied.contains(i) && !seen.contains(i)).collect();
        if !leaked.is_empty() {
            return Err(("C17", format!("allocator: dead indices {:?} are missing from the free list (never recycled)", trunc(&leaked))));
        }
        Ok(())
    }

fn trunc<T: std::fmt::Debug, I: IntoIterator<Item = T>>(it: I) -> Vec<T> {
    it.into_iter().take(24).collect()
}
