//! Reference models: entity lifecycle + per-storage component maps + lazy queue.
//! Deliberately naive, safe Rust. The model never predicts concrete index or
//! generation values; it only checks relations on what the real code returns.

use std::collections::{BTreeMap, BTreeSet, VecDeque};

use specs::Entity;

use crate::ledger::Snap;

#[derive(Clone, Copy, PartialEq, Eq, Debug)]
pub enum St {
    Live,
    /// created through shared access, becomes `Live` at the next maintain
    Pending,
    Dead,
}

#[derive(Clone, Copy, Debug)]
pub struct Info {
    pub st: St,
    pub pending_delete: bool,
}

/// A (property id, message) pair produced by a model check.
pub type Fail = (&'static str, String);

#[derive(Default)]
pub struct Model {
    pub handles: Vec<Entity>,
    pub info: BTreeMap<Entity, Info>,
    /// index -> the handle currently occupying it (Live or Pending)
    pub occupant: BTreeMap<u32, Entity>,
    pub dead: Vec<Entity>,
    pub comps: Vec<BTreeMap<Entity, Snap>>,
    pub peak: usize,
    pub index_reuses: u64,
    pub max_gen: i32,
    pub created_while_pending: u64,
    pub seen_idx: BTreeSet<u32>,
}

impl Model {
    pub fn new(nstorages: usize) -> Model {
        Model { comps: (0..nstorages).map(|_| BTreeMap::new()).collect(), ..Default::default() }
    }

    pub fn state(&self, h: Entity) -> St {
        self.info.get(&h).map(|i| i.st).unwrap_or(St::Dead)
    }
    pub fn not_dead(&self, h: Entity) -> bool {
        matches!(self.info.get(&h), Some(i) if i.st != St::Dead)
    }
    pub fn is_live(&self, h: Entity) -> bool {
        matches!(self.info.get(&h), Some(i) if i.st == St::Live)
    }
    pub fn n_not_dead(&self) -> usize {
        self.occupant.len()
    }
    pub fn any_awaiting_maintain(&self) -> bool {
        self.info.values().any(|i| i.st == St::Pending || (i.st != St::Dead && i.pending_delete))
    }

    /// A creation call returned `h`. Checks C01 (uniqueness) and C17 (bound).
    pub fn created(&mut self, h: Entity, pending: bool) -> Result<(), Fail> {
        if self.info.contains_key(&h) {
            return Err((
                "C01",
                format!("creation returned handle {:?} which was already returned earlier in this world", h),
            ));
        }
        if let Some(o) = self.occupant.get(&h.id()) {
            return Err((
                "C01",
                format!("creation returned {:?} while {:?} (not yet dead) occupies the same index", h, o),
            ));
        }
        if h.gen().id() <= 0 {
            return Err(("C01", format!("creation returned a handle with a dead generation: {:?}", h)));
        }
        if self.any_awaiting_maintain() {
            self.created_while_pending += 1;
        }
        if !self.seen_idx.insert(h.id()) {
            self.index_reuses += 1;
        }
        self.max_gen = self.max_gen.max(h.gen().id());
        self.handles.push(h);
        self.info.insert(h, Info { st: if pending { St::Pending } else { St::Live }, pending_delete: false });
        self.occupant.insert(h.id(), h);
        self.peak = self.peak.max(self.occupant.len());
        if (h.id() as usize) >= self.peak {
            return Err((
                "C17",
                format!(
                    "new entity got index {} but at most {} entities were ever simultaneously not yet dead (a free lower index was not recycled)",
                    h.id(),
                    self.peak
                ),
            ));
        }
        Ok(())
    }

    /// The entity dies now. Returns the component snaps that must be destroyed.
    pub fn kill(&mut self, h: Entity) -> Vec<(usize, Snap)> {
        let mut destroyed = Vec::new();
        if let Some(i) = self.info.get_mut(&h) {
            if i.st != St::Dead {
                i.st = St::Dead;
                i.pending_delete = false;
                self.occupant.remove(&h.id());
                self.dead.push(h);
                for (k, m) in self.comps.iter_mut().enumerate() {
                    if let Some(s) = m.remove(&h) {
                        destroyed.push((k, s));
                    }
                }
            }
        }
        destroyed
    }

    pub fn request_delete(&mut self, h: Entity) {
        if let Some(i) = self.info.get_mut(&h) {
            if i.st != St::Dead {
                i.pending_delete = true;
            }
        }
    }

    /// Entity part of maintain: creations first, then deletions.
    pub fn merge(&mut self) -> Vec<(usize, Snap)> {
        let mut destroyed = Vec::new();
        let mut to_kill = Vec::new();
        for (h, i) in self.info.iter_mut() {
            if i.st == St::Pending {
                i.st = St::Live;
            }
            if i.st == St::Live && i.pending_delete {
                to_kill.push(*h);
            }
        }
        for h in to_kill {
            destroyed.extend(self.kill(h));
        }
        destroyed
    }

    pub fn not_dead_sorted(&self) -> Vec<Entity> {
        self.occupant.values().cloned().collect()
    }

    pub fn expected_dump(&self, k: usize) -> Vec<(u32, Snap)> {
        let mut v: Vec<(u32, Snap)> = self.comps[k].iter().map(|(e, s)| (e.id(), *s)).collect();
        v.sort();
        v
    }

    pub fn pending_delete_indices(&self) -> BTreeSet<u32> {
        self.info
            .iter()
            .filter(|(_, i)| i.st != St::Dead && i.pending_delete)
            .map(|(h, _)| h.id())
            .collect()
    }
}

/// Lazy-queue model: what was queued, in FIFO order.
#[derive(Clone, Debug)]
pub enum Action {
    Insert { storage: usize, target: Entity, snap: Snap },
    InsertAll { storage: usize, items: Vec<(Entity, Snap)> },
    Remove { storage: usize, target: Entity },
    Script { id: u64 },
}

pub type Queue = VecDeque<Action>;
