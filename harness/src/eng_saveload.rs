//! Engine `saveload`: C14 (save/load round trip) and C15 (loading into a
//! populated world merges by marker; marker ids stay unique).
//!
//! One generic simulator `Sim<M>` wraps a real `World` (six serialised
//! component types, one non-serialised one, marker storage + allocator of
//! marker kind `M`) together with a deliberately naive reference model: per
//! entity ever created its handle, liveness, marker id and component values.
//! C14 builds a source `Sim` from a seeded model, serialises it, optionally
//! permutes the records, loads the data into an empty `Sim` and compares
//! through marker ids. C15 runs a history of mark / delete / maintain /
//! allocator.maintain / serialise / deserialise steps over one target `Sim`
//! with a pool of buffers (own past, other worlds) and checks marker uniqueness
//! after every step and the merge expectation after every load.

use std::cell::RefCell;
use std::collections::{BTreeMap, BTreeSet, VecDeque};
use std::convert::Infallible;
use std::marker::PhantomData;

use serde::de::IgnoredAny;
use serde::{Deserialize, Serialize};
use specs::prelude::*;
use specs::saveload::{
    ConvertSaveload, DeserializeComponents, EntityData, MarkedBuilder, Marker, MarkerAllocator,
    SerializeComponents, SimpleMarker, SimpleMarkerAllocator, UuidMarker, UuidMarkerAllocator,
};
use specs::storage::BTreeStorage;
use specs::ConvertSaveload;

use crate::report::{trace, Report};
use crate::rng::{derive, hash_str, Rng, Sig};

// ---------------------------------------------------------------------------
// Components
// ---------------------------------------------------------------------------

#[derive(Clone, Debug, PartialEq, Serialize, Deserialize)]
pub struct Pos {
    pub x: i32,
    pub y: i32,
}
impl Component for Pos {
    type Storage = VecStorage<Self>;
}

#[derive(Clone, Debug, PartialEq, Serialize, Deserialize)]
pub struct Name(pub String);
impl Component for Name {
    type Storage = DenseVecStorage<Self>;
}

#[derive(Clone, Debug, PartialEq, Serialize, Deserialize)]
pub struct Tags(pub Vec<u16>);
impl Component for Tags {
    type Storage = HashMapStorage<Self>;
}

/// Tuple struct holding an entity.
#[derive(ConvertSaveload, Clone, Debug, PartialEq)]
pub struct Target(pub Entity);
impl Component for Target {
    type Storage = VecStorage<Self>;
}

/// Named struct: an entity, a nested derived struct holding an entity, plain data.
/// (`Option<Entity>`, `Vec<Entity>`, `[Entity; 2]`, `(Entity, u32)` fields do not
/// compile on the unchanged tree: no `ConvertSaveload` impl for those shapes.)
#[derive(ConvertSaveload, Clone, Debug, PartialEq)]
pub struct Link {
    pub a: Entity,
    pub via: Target,
    pub w: u32,
}
impl Component for Link {
    type Storage = DenseVecStorage<Self>;
}

#[derive(ConvertSaveload, Clone, Debug, PartialEq)]
pub enum Rel {
    None,
    One(Entity),
    Two { a: Entity, b: Entity },
    /// tuple variant with two fields of the same type: their positions must survive the round trip
    Pair(Entity, Entity),
}
impl Component for Rel {
    type Storage = BTreeStorage<Self>;
}

/// Not part of the serialised tuple: must survive loads untouched.
#[derive(Clone, Debug, PartialEq)]
pub struct Extra(pub u32);
impl Component for Extra {
    type Storage = VecStorage<Self>;
}

pub struct Tag;
type SM = SimpleMarker<Tag>;

const TYPE_NAMES: [&str; 6] = ["Pos", "Name", "Tags", "Target", "Link", "Rel"];

// ---------------------------------------------------------------------------
// Marker kinds
// ---------------------------------------------------------------------------

pub trait Mk: Marker + Send + Sync + 'static {
    const KIND: &'static str;
    const UUID: bool;
    fn key(&self) -> u128;
    fn setup(world: &mut World);
}

impl Mk for SM {
    const KIND: &'static str = "simple";
    const UUID: bool = false;
    fn key(&self) -> u128 {
        self.id() as u128
    }
    fn setup(world: &mut World) {
        world.register::<SM>();
        world.insert(SimpleMarkerAllocator::<Tag>::new());
    }
}

impl Mk for UuidMarker {
    const KIND: &'static str = "uuid";
    const UUID: bool = true;
    fn key(&self) -> u128 {
        self.id().as_u128()
    }
    fn setup(world: &mut World) {
        world.register::<UuidMarker>();
        world.insert(UuidMarkerAllocator::new());
    }
}

// Random uuids would make messages differ between runs of the same case: show
// them by order of first observation instead.
thread_local! {
    static NAMES: RefCell<(bool, BTreeMap<u128, usize>)> = RefCell::new((false, BTreeMap::new()));
}
fn names_reset(uuid: bool) {
    NAMES.with(|n| *n.borrow_mut() = (uuid, BTreeMap::new()));
}
fn note_name(id: u128) {
    NAMES.with(|n| {
        let mut n = n.borrow_mut();
        let k = n.1.len();
        n.1.entry(id).or_insert(k);
    });
}
fn show(id: u128) -> String {
    NAMES.with(|n| {
        let mut n = n.borrow_mut();
        if n.0 {
            let k = n.1.len();
            format!("u{}", *n.1.entry(id).or_insert(k))
        } else {
            format!("{}", id)
        }
    })
}
fn se(e: Entity) -> String {
    format!("e{}g{}", e.id(), e.gen().id())
}

// ---------------------------------------------------------------------------
// Model values
// ---------------------------------------------------------------------------

#[derive(Clone, Debug, PartialEq)]
pub enum RelV<R> {
    None,
    One(R),
    Two(R, R),
    Pair(R, R),
}

/// Values of the six serialised component types of one entity; references are
/// of type `R` (`Entity` inside a world, marker id `u128` inside data).
#[derive(Clone, Debug, PartialEq)]
pub struct Val<R> {
    pos: Option<(i32, i32)>,
    name: Option<String>,
    tags: Option<Vec<u16>>,
    target: Option<R>,
    link: Option<(R, R, u32)>,
    rel: Option<RelV<R>>,
}

impl<R: Clone + PartialEq + std::fmt::Debug> Val<R> {
    fn empty() -> Self {
        Val { pos: None, name: None, tags: None, target: None, link: None, rel: None }
    }
    fn present(&self) -> [bool; 6] {
        [
            self.pos.is_some(),
            self.name.is_some(),
            self.tags.is_some(),
            self.target.is_some(),
            self.link.is_some(),
            self.rel.is_some(),
        ]
    }
    fn refs(&self) -> Vec<R> {
        let mut v = Vec::new();
        if let Some(t) = &self.target {
            v.push(t.clone());
        }
        if let Some((a, b, _)) = &self.link {
            v.push(a.clone());
            v.push(b.clone());
        }
        match &self.rel {
            Some(RelV::One(a)) => v.push(a.clone()),
            Some(RelV::Two(a, b)) | Some(RelV::Pair(a, b)) => {
                v.push(a.clone());
                v.push(b.clone());
            }
            _ => {}
        }
        v
    }
    /// Which of the three reference-carrying types hold a reference rejected by `ok`.
    fn bad_ref_types(&self, ok: &dyn Fn(&R) -> bool) -> [bool; 3] {
        let t = self.target.as_ref().map_or(false, |t| !ok(t));
        let l = self.link.as_ref().map_or(false, |(a, b, _)| !ok(a) || !ok(b));
        let r = match &self.rel {
            Some(RelV::One(a)) => !ok(a),
            Some(RelV::Two(a, b)) | Some(RelV::Pair(a, b)) => !ok(a) || !ok(b),
            _ => false,
        };
        [t, l, r]
    }
    fn try_map<S>(&self, f: &mut dyn FnMut(&R) -> Result<S, String>) -> Result<Val<S>, String> {
        Ok(Val {
            pos: self.pos,
            name: self.name.clone(),
            tags: self.tags.clone(),
            target: match &self.target {
                Some(t) => Some(f(t).map_err(|e| format!("Target: {}", e))?),
                None => None,
            },
            link: match &self.link {
                Some((a, b, w)) => Some((
                    f(a).map_err(|e| format!("Link.a: {}", e))?,
                    f(b).map_err(|e| format!("Link.via: {}", e))?,
                    *w,
                )),
                None => None,
            },
            rel: match &self.rel {
                Some(RelV::None) => Some(RelV::None),
                Some(RelV::One(a)) => Some(RelV::One(f(a).map_err(|e| format!("Rel::One: {}", e))?)),
                Some(RelV::Two(a, b)) => Some(RelV::Two(
                    f(a).map_err(|e| format!("Rel::Two.a: {}", e))?,
                    f(b).map_err(|e| format!("Rel::Two.b: {}", e))?,
                )),
                Some(RelV::Pair(a, b)) => Some(RelV::Pair(
                    f(a).map_err(|e| format!("Rel::Pair.0: {}", e))?,
                    f(b).map_err(|e| format!("Rel::Pair.1: {}", e))?,
                )),
                None => None,
            },
        })
    }
    fn type_str(&self, k: usize) -> String {
        match k {
            0 => format!("{:?}", self.pos),
            1 => format!("{:?}", self.name),
            2 => format!("{:?}", self.tags),
            3 => format!("{:?}", self.target),
            4 => format!("{:?}", self.link),
            _ => format!("{:?}", self.rel),
        }
    }
    fn type_eq(&self, o: &Self, k: usize) -> bool {
        match k {
            0 => self.pos == o.pos,
            1 => self.name == o.name,
            2 => self.tags == o.tags,
            3 => self.target == o.target,
            4 => self.link == o.link,
            _ => self.rel == o.rel,
        }
    }
    fn short(&self) -> String {
        let p = self.present();
        let mut s = String::from("{");
        for k in 0..6 {
            if p[k] {
                if s.len() > 1 {
                    s.push(',');
                }
                s.push_str(TYPE_NAMES[k]);
                if k >= 3 {
                    s.push('=');
                    s.push_str(&self.type_str(k));
                }
            }
        }
        s.push('}');
        s
    }
}

fn shown(v: &Val<u128>) -> Val<String> {
    v.try_map(&mut |id| Ok(show(*id))).unwrap()
}
fn shown_e(v: &Val<Entity>) -> Val<String> {
    v.try_map(&mut |e| Ok(se(*e))).unwrap()
}

// ---------------------------------------------------------------------------
// Failures, evidence
// ---------------------------------------------------------------------------

/// (property, kind of failure (stable, goes into the signature), message)
type Fail = (&'static str, &'static str, String);
type R<T = ()> = Result<T, Fail>;

#[derive(Default)]
struct Ev {
    c: BTreeMap<&'static str, u64>,
    mx: BTreeMap<&'static str, u64>,
    hist: Vec<String>,
    sig: Sig,
}
impl Ev {
    fn bump(&mut self, k: &'static str, n: u64) {
        *self.c.entry(k).or_insert(0) += n;
    }
    fn max(&mut self, k: &'static str, v: u64) {
        let e = self.mx.entry(k).or_insert(0);
        if v > *e {
            *e = v;
        }
    }
    fn log(&mut self, s: String) {
        let kind = s.split(|c| c == '(' || c == ' ').nth(1).unwrap_or("");
        self.sig.push(hash_str(kind));
        trace::push(&s);
        self.hist.push(s);
    }
}

#[derive(Clone, Copy, PartialEq, Eq, Debug)]
enum Fmt {
    Json,
    Ron,
    RonPretty,
}
impl Fmt {
    fn name(self) -> &'static str {
        match self {
            Fmt::Json => "json",
            Fmt::Ron => "ron",
            Fmt::RonPretty => "ron-pretty",
        }
    }
}

/// Serialised data together with the model of its records.
#[derive(Clone)]
struct Buf {
    label: usize,
    origin: char, // 'T' target world, 'S' C14 source, 'F' fresh other world, 'D' other world derived from a buffer
    fmt: Fmt,
    text: String,
    recs: Vec<(u128, Val<u128>)>,
    /// marker ids in data order (None if the data could not be scanned)
    order: Option<Vec<u128>>,
    recursive: bool,
    permuted: bool,
}

// ---------------------------------------------------------------------------
// Calls into the real serialiser / deserialiser
// ---------------------------------------------------------------------------

fn ser_real<M: Mk>(world: &World, recursive: bool, fmt: Fmt) -> Result<String, String> {
    let ents = world.entities();
    let pos = world.read_storage::<Pos>();
    let name = world.read_storage::<Name>();
    let tags = world.read_storage::<Tags>();
    let target = world.read_storage::<Target>();
    let link = world.read_storage::<Link>();
    let rel = world.read_storage::<Rel>();
    let tup = (&pos, &name, &tags, &target, &link, &rel);
    let mut buf: Vec<u8> = Vec::new();
    macro_rules! go {
        ($ser:expr) => {{
            if recursive {
                let mut mk = world.write_storage::<M>();
                let mut al = world.write_resource::<M::Allocator>();
                SerializeComponents::<Infallible, M>::serialize_recursive(&tup, &ents, &mut mk, &mut al, $ser)
                    .map(|_| ())
                    .map_err(|e| e.to_string())
            } else {
                let mk = world.read_storage::<M>();
                SerializeComponents::<Infallible, M>::serialize(&tup, &ents, &mk, $ser)
                    .map(|_| ())
                    .map_err(|e| e.to_string())
            }
        }};
    }
    match fmt {
        Fmt::Json => {
            let mut ser = serde_json::Serializer::new(&mut buf);
            go!(&mut ser)?;
        }
        Fmt::Ron => {
            let mut ser = ron::ser::Serializer::new(&mut buf, None).map_err(|e| e.to_string())?;
            go!(&mut ser)?;
        }
        Fmt::RonPretty => {
            let mut config = ron::ser::PrettyConfig::default();
            config.struct_names = true;
            let mut ser = ron::ser::Serializer::new(&mut buf, Some(config)).map_err(|e| e.to_string())?;
            go!(&mut ser)?;
        }
    }
    String::from_utf8(buf).map_err(|e| e.to_string())
}

fn de_real<M: Mk>(world: &World, text: &str, fmt: Fmt) -> Result<(), String> {
    let ents = world.entities();
    let mut al = world.write_resource::<M::Allocator>();
    let mut mk = world.write_storage::<M>();
    let mut tup = (
        world.write_storage::<Pos>(),
        world.write_storage::<Name>(),
        world.write_storage::<Tags>(),
        world.write_storage::<Target>(),
        world.write_storage::<Link>(),
        world.write_storage::<Rel>(),
    );
    match fmt {
        Fmt::Json => {
            let mut de = serde_json::Deserializer::from_str(text);
            DeserializeComponents::<Infallible, M>::deserialize(&mut tup, &ents, &mut mk, &mut al, &mut de)
                .map_err(|e| e.to_string())
        }
        Fmt::Ron | Fmt::RonPretty => {
            let mut de = ron::de::Deserializer::from_str(text).map_err(|e| e.to_string())?;
            DeserializeComponents::<Infallible, M>::deserialize(&mut tup, &ents, &mut mk, &mut al, &mut de)
                .map_err(|e| e.to_string())
        }
    }
}

type DataTuple<M> = (
    Option<Pos>,
    Option<Name>,
    Option<Tags>,
    Option<TargetSaveloadData<M>>,
    Option<LinkSaveloadData<M>>,
    Option<RelSaveloadData<M>>,
);

/// Read the data back with plain serde (no specs code involved besides the
/// derived data types): records in data order, references as marker ids.
fn decode<M: Mk>(text: &str, fmt: Fmt) -> Option<Vec<(u128, Val<u128>)>> {
    let v: Vec<EntityData<M, DataTuple<M>>> = match fmt {
        Fmt::Json => serde_json::from_str(text).ok()?,
        Fmt::Ron | Fmt::RonPretty => ron::from_str(text).ok()?,
    };
    Some(
        v.into_iter()
            .map(|d| {
                let (pos, name, tags, target, link, rel) = d.components;
                (
                    d.marker.key(),
                    Val {
                        pos: pos.map(|p| (p.x, p.y)),
                        name: name.map(|n| n.0),
                        tags: tags.map(|t| t.0),
                        target: target.map(|t| t.0.key()),
                        link: link.map(|l| (l.a.key(), l.via.0.key(), l.w)),
                        rel: rel.map(|r| match r {
                            RelSaveloadData::None => RelV::None,
                            RelSaveloadData::One(a) => RelV::One(a.key()),
                            RelSaveloadData::Two { a, b } => RelV::Two(a.key(), b.key()),
                            RelSaveloadData::Pair(a, b) => RelV::Pair(a.key(), b.key()),
                        }),
                    },
                )
            })
            .collect(),
    )
}

/// Marker ids of the records in data order (component payloads skipped).
fn scan_order<M: Mk>(text: &str, fmt: Fmt) -> Option<Vec<u128>> {
    let v: Vec<EntityData<M, IgnoredAny>> = match fmt {
        Fmt::Json => serde_json::from_str(text).ok()?,
        Fmt::Ron | Fmt::RonPretty => ron::from_str(text).ok()?,
    };
    Some(v.iter().map(|d| d.marker.key()).collect())
}

struct Rd<'a> {
    pos: ReadStorage<'a, Pos>,
    name: ReadStorage<'a, Name>,
    tags: ReadStorage<'a, Tags>,
    target: ReadStorage<'a, Target>,
    link: ReadStorage<'a, Link>,
    rel: ReadStorage<'a, Rel>,
    extra: ReadStorage<'a, Extra>,
}
impl<'a> Rd<'a> {
    fn new(w: &'a World) -> Self {
        Rd {
            pos: w.read_storage(),
            name: w.read_storage(),
            tags: w.read_storage(),
            target: w.read_storage(),
            link: w.read_storage(),
            rel: w.read_storage(),
            extra: w.read_storage(),
        }
    }
    fn get(&self, e: Entity) -> (Val<Entity>, Option<u32>) {
        (
            Val {
                pos: self.pos.get(e).map(|p| (p.x, p.y)),
                name: self.name.get(e).map(|n| n.0.clone()),
                tags: self.tags.get(e).map(|t| t.0.clone()),
                target: self.target.get(e).map(|t| t.0),
                link: self.link.get(e).map(|l| (l.a, l.via.0, l.w)),
                rel: self.rel.get(e).map(|r| match r {
                    Rel::None => RelV::None,
                    Rel::One(a) => RelV::One(*a),
                    Rel::Two { a, b } => RelV::Two(*a, *b),
                    Rel::Pair(a, b) => RelV::Pair(*a, *b),
                }),
            },
            self.extra.get(e).map(|x| x.0),
        )
    }
}

fn put<C: Component>(world: &World, e: Entity, c: Option<C>) {
    let mut s = world.write_storage::<C>();
    match c {
        Some(c) => {
            s.insert(e, c).expect("harness: insert on a live entity");
        }
        None => {
            s.remove(e);
        }
    }
}

fn rel_of(r: &RelV<Entity>) -> Rel {
    match r {
        RelV::None => Rel::None,
        RelV::One(a) => Rel::One(*a),
        RelV::Two(a, b) => Rel::Two { a: *a, b: *b },
        RelV::Pair(a, b) => Rel::Pair(*a, *b),
    }
}

// ---------------------------------------------------------------------------
// Simulator: real world + reference model
// ---------------------------------------------------------------------------

struct EntM {
    e: Entity,
    live: bool,
    pending_delete: bool,
    pending_mark: bool,
    marker: Option<u128>,
    val: Val<Entity>,
    extra: Option<u32>,
}

#[derive(Clone, Copy, Debug, PartialEq, Eq)]
enum How {
    Builder { marked: bool },
    Lazy,
    Res,
}

#[derive(Default, Clone, Copy, Debug)]
struct LoadStats {
    updates: u64,
    creates: u64,
    removed_absent: u64,
    created_over_stale: u64,
    stale_before: u64,
    above_counter: u64,
}

struct Sim<M: Mk> {
    world: World,
    name: String,
    ents: Vec<EntM>,
    by_e: BTreeMap<Entity, usize>,
    /// marker ids whose carrier died since the last allocator.maintain and
    /// that were not handed to a new entity since: the allocator still maps
    /// them to the dead entity.
    stale: BTreeSet<u128>,
    /// highest marker id ever observed in this world (simple markers)
    max_id: Option<u128>,
    _m: PhantomData<M>,
}

impl<M: Mk> Sim<M> {
    fn new(name: &str) -> Self {
        let mut world = World::new();
        world.register::<Pos>();
        world.register::<Name>();
        world.register::<Tags>();
        world.register::<Target>();
        world.register::<Link>();
        world.register::<Rel>();
        world.register::<Extra>();
        M::setup(&mut world);
        Sim {
            world,
            name: name.to_string(),
            ents: Vec::new(),
            by_e: BTreeMap::new(),
            stale: BTreeSet::new(),
            max_id: None,
            _m: PhantomData,
        }
    }
    fn live_slots(&self) -> Vec<usize> {
        (0..self.ents.len()).filter(|&s| self.ents[s].live).collect()
    }
    fn marked_slots(&self) -> Vec<usize> {
        (0..self.ents.len()).filter(|&s| self.ents[s].live && self.ents[s].marker.is_some()).collect()
    }
    fn unmarked_slots(&self) -> Vec<usize> {
        (0..self.ents.len()).filter(|&s| self.ents[s].live && self.ents[s].marker.is_none()).collect()
    }
    fn is_live(&self, e: Entity) -> bool {
        self.by_e.get(&e).map_or(false, |&s| self.ents[s].live)
    }
    fn is_live_marked(&self, e: Entity) -> bool {
        self.by_e.get(&e).map_or(false, |&s| self.ents[s].live && self.ents[s].marker.is_some())
    }
    fn real_marker(&self, e: Entity) -> Option<u128> {
        self.world.read_storage::<M>().get(e).map(|m| m.key())
    }
    fn note_id(&mut self, id: u128) {
        note_name(id);
        if !M::UUID && self.max_id.map_or(true, |m| id > m) {
            self.max_id = Some(id);
        }
    }
    fn counter_estimate(&self) -> u128 {
        self.max_id.map_or(0, |m| m.saturating_add(1))
    }
    fn add_ent(&mut self, e: Entity, marker: Option<u128>, pending_mark: bool) -> usize {
        let slot = self.ents.len();
        self.ents.push(EntM {
            e,
            live: true,
            pending_delete: false,
            pending_mark,
            marker,
            val: Val::empty(),
            extra: None,
        });
        self.by_e.insert(e, slot);
        if let Some(id) = marker {
            self.note_id(id);
            self.stale.remove(&id);
        }
        slot
    }

    /// Create an entity; `val` is applied through `.with` for the plain
    /// builder and by direct insertion afterwards for the other kinds.
    fn create(&mut self, how: How, val: &Val<Entity>, ev: &mut Ev) -> usize {
        let (e, kind) = match how {
            How::Builder { marked } => {
                let mut b = self.world.create_entity();
                if let Some((x, y)) = val.pos {
                    b = b.with(Pos { x, y });
                }
                if let Some(n) = &val.name {
                    b = b.with(Name(n.clone()));
                }
                if let Some(t) = &val.tags {
                    b = b.with(Tags(t.clone()));
                }
                if let Some(t) = val.target {
                    b = b.with(Target(t));
                }
                if let Some((a, v, w)) = val.link {
                    b = b.with(Link { a, via: Target(v), w });
                }
                if let Some(r) = &val.rel {
                    b = b.with(rel_of(r));
                }
                if marked {
                    b = b.marked::<M>();
                }
                (b.build(), if marked { "create_builder_marked" } else { "create_builder_unmarked" })
            }
            How::Lazy => {
                let ents = self.world.entities();
                let lazy = self.world.read_resource::<LazyUpdate>();
                (lazy.create_entity(&ents).marked::<M>().build(), "create_lazy_marked")
            }
            How::Res => {
                let ents = self.world.entities();
                let mut st = self.world.write_storage::<M>();
                let mut al = self.world.write_resource::<M::Allocator>();
                (ents.build_entity().marked(&mut st, &mut al).build(), "create_entitiesres_marked")
            }
        };
        let marker = self.real_marker(e);
        let expect_marked = !matches!(how, How::Builder { marked: false } | How::Lazy);
        // the model expects a marker for the immediate kinds; if the real
        // world has none the marker-set check after this step reports it
        let slot = self.add_ent(e, if expect_marked { marker.or(Some(u128::MAX)) } else { None }, how == How::Lazy);
        match how {
            How::Builder { .. } => self.ents[slot].val = val.clone(),
            _ => self.apply_val(slot, val.clone()),
        }
        ev.log(format!(
            "{}: {}() -> {} marker={} {}",
            self.name,
            kind,
            se(e),
            marker.map_or("-".to_string(), show),
            shown_e(val).short()
        ));
        slot
    }

    fn apply_val(&mut self, slot: usize, val: Val<Entity>) {
        let e = self.ents[slot].e;
        let w = &self.world;
        put(w, e, val.pos.map(|(x, y)| Pos { x, y }));
        put(w, e, val.name.clone().map(Name));
        put(w, e, val.tags.clone().map(Tags));
        put(w, e, val.target.map(Target));
        put(w, e, val.link.map(|(a, v, wt)| Link { a, via: Target(v), w: wt }));
        put(w, e, val.rel.as_ref().map(rel_of));
        self.ents[slot].val = val;
    }

    fn set_val(&mut self, slot: usize, val: Val<Entity>, ev: &mut Ev) {
        ev.log(format!("{}: set_components({}) {}", self.name, se(self.ents[slot].e), shown_e(&val).short()));
        self.apply_val(slot, val);
    }

    fn set_extra(&mut self, slot: usize, x: Option<u32>, ev: &mut Ev) {
        let e = self.ents[slot].e;
        put(&self.world, e, x.map(Extra));
        self.ents[slot].extra = x;
        ev.log(format!("{}: set_extra({}) {:?}", self.name, se(e), x));
    }

    /// `allocator.mark(entity, &mut storage)` on a live entity.
    fn mark(&mut self, slot: usize, prop: &'static str, ev: &mut Ev) -> R {
        let e = self.ents[slot].e;
        let res = {
            let mut st = self.world.write_storage::<M>();
            let mut al = self.world.write_resource::<M::Allocator>();
            al.mark(e, &mut st).map(|(m, new)| (m.key(), new))
        };
        ev.log(format!(
            "{}: mark({}) -> {}",
            self.name,
            se(e),
            match res {
                Some((id, new)) => format!("({}, {})", show(id), new),
                None => "None".into(),
            }
        ));
        match (self.ents[slot].marker, res) {
            (Some(old), Some((id, new))) => {
                ev.bump("mark_again_probes", 1);
                if id != old || new {
                    return Err((
                        prop,
                        "marking an already marked entity",
                        format!(
                            "marking an already marked entity: mark({}) returned (marker {}, new={}) but the entity already carried marker {}: expected ({}, false)",
                            se(e), show(id), new, show(old), show(old)
                        ),
                    ));
                }
            }
            (None, Some((id, _))) => {
                self.ents[slot].marker = Some(id);
                self.note_id(id);
                self.stale.remove(&id);
                ev.bump("marks_of_unmarked", 1);
            }
            (_, None) => {
                return Err((prop, "mark returned None", format!("mark returned None: mark({}) on a live entity returned None", se(e))));
            }
        }
        Ok(())
    }

    /// The marker component of a marked entity is removed by hand, the entity is marked again (a new id)
    /// and the allocator is re-synchronised at once, as a program that edits marker storages directly has
    /// to. From here on the old id is unknown to the world: data mentioning it creates a new entity.
    fn unmark_remark_sync(&mut self, slot: usize, ev: &mut Ev) -> R {
        let e = self.ents[slot].e;
        let old = match self.ents[slot].marker {
            Some(id) => id,
            None => return Ok(()),
        };
        {
            let mut st = self.world.write_storage::<M>();
            st.remove(e);
        }
        self.ents[slot].marker = None;
        self.stale.insert(old);
        ev.log(format!("{}: marker storage.remove({}) (was {})", self.name, se(e), show(old)));
        self.mark(slot, "C15", ev)?;
        if self.ents[slot].marker == Some(old) {
            return Err(("C15", "re-marking returned the removed id", format!("re-marking {} after its marker was removed returned the old id {}", se(e), show(old))));
        }
        self.alloc_maintain(ev);
        ev.bump("unmark_remark_sync", 1);
        Ok(())
    }

    fn died(&mut self, slot: usize) {
        self.ents[slot].live = false;
        if let Some(id) = self.ents[slot].marker {
            self.stale.insert(id);
        }
    }

    fn delete_now(&mut self, slot: usize, ev: &mut Ev) -> R {
        let e = self.ents[slot].e;
        let r = self.world.delete_entity(e);
        ev.log(format!("{}: delete_entity({}) marker={}", self.name, se(e), self.ents[slot].marker.map_or("-".into(), show)));
        if r.is_err() {
            return Err(("C02", "delete failed", format!("delete failed: world.delete_entity({}) on a live entity returned {:?}", se(e), r)));
        }
        self.died(slot);
        Ok(())
    }

    fn delete_deferred(&mut self, slot: usize, ev: &mut Ev) -> R {
        let e = self.ents[slot].e;
        let r = self.world.entities().delete(e);
        ev.log(format!("{}: entities.delete({}) marker={}", self.name, se(e), self.ents[slot].marker.map_or("-".into(), show)));
        if r.is_err() {
            return Err(("C02", "delete failed", format!("delete failed: entities.delete({}) on a live entity returned {:?}", se(e), r)));
        }
        self.ents[slot].pending_delete = true;
        Ok(())
    }

    fn maintain(&mut self, ev: &mut Ev) {
        self.world.maintain();
        let mut newly = Vec::new();
        for s in 0..self.ents.len() {
            if self.ents[s].live && self.ents[s].pending_delete {
                self.died(s);
            }
            self.ents[s].pending_delete = false;
            if self.ents[s].pending_mark {
                self.ents[s].pending_mark = false;
                if self.ents[s].live && self.ents[s].marker.is_none() {
                    // the queued `.marked()` ran: the id is whatever the allocator chose
                    let id = self.real_marker(self.ents[s].e);
                    self.ents[s].marker = id.or(Some(u128::MAX));
                    if let Some(id) = id {
                        self.note_id(id);
                        self.stale.remove(&id);
                        newly.push(format!("{}={}", se(self.ents[s].e), show(id)));
                    }
                }
            }
        }
        ev.log(format!("{}: maintain() lazily marked [{}]", self.name, newly.join(",")));
    }

    fn alloc_maintain(&mut self, ev: &mut Ev) {
        {
            let ents = self.world.entities();
            let st = self.world.read_storage::<M>();
            let mut al = self.world.write_resource::<M::Allocator>();
            al.maintain(&ents, &st);
        }
        self.stale.clear();
        ev.log(format!("{}: allocator.maintain()", self.name));
    }

    /// Core invariant: marker ids pairwise distinct among live entities, and
    /// the marked set equals the model's.
    fn check_markers(&self, prop: &'static str, ev: &mut Ev) -> R {
        let ents = self.world.entities();
        let st = self.world.read_storage::<M>();
        let obs: Vec<(Entity, u128)> = (&ents, &st).join().map(|(e, m)| (e, m.key())).collect();
        ev.bump("uniqueness_checks", 1);
        ev.max("max_marked_live_entities", obs.len() as u64);
        let mut seen: BTreeMap<u128, Entity> = BTreeMap::new();
        for (e, id) in &obs {
            if let Some(prev) = seen.insert(*id, *e) {
                return Err((
                    prop,
                    "duplicate marker id",
                    format!("duplicate marker id: live entities {} and {} of world {} both carry marker id {}", se(prev), se(*e), self.name, show(*id)),
                ));
            }
        }
        let obs_map: BTreeMap<Entity, u128> = obs.into_iter().collect();
        for m in &self.ents {
            if !m.live {
                continue;
            }
            match (m.marker, obs_map.get(&m.e)) {
                (Some(a), Some(b)) if a == *b => {}
                (None, None) => {}
                (a, b) => {
                    return Err((
                        prop,
                        "marker differs from model",
                        format!(
                            "marker differs from model: entity {} of world {} carries marker {} but the history implies {}",
                            se(m.e),
                            self.name,
                            b.map_or("none".into(), |x| show(*x)),
                            a.map_or("none".into(), |x| if x == u128::MAX { "a marker".into() } else { show(x) })
                        ),
                    ));
                }
            }
        }
        for (e, id) in &obs_map {
            if !self.is_live(*e) {
                return Err((
                    prop,
                    "marker on unknown entity",
                    format!("marker on unknown entity: {} of world {} carries marker {} but is not a live entity of the model", se(*e), self.name, show(*id)),
                ));
            }
        }
        Ok(())
    }

    /// Live set and every component value (serialised types + Extra) equal the model.
    fn check_vals(&self, prop: &'static str, what: &str, ev: &mut Ev) -> R {
        let live: BTreeSet<Entity> = self.world.entities().join().collect();
        let model: BTreeSet<Entity> = self.ents.iter().filter(|m| m.live).map(|m| m.e).collect();
        if let Some(e) = live.difference(&model).next() {
            return Err((prop, "unexpected entity", format!("unexpected entity: {} — world {} holds live entity {} that the history does not account for", what, self.name, se(*e))));
        }
        if let Some(e) = model.difference(&live).next() {
            return Err((prop, "entity vanished", format!("entity vanished: {} — entity {} of world {} should be alive but is not", what, se(*e), self.name)));
        }
        let rd = Rd::new(&self.world);
        for m in self.ents.iter().filter(|m| m.live) {
            let (v, x) = rd.get(m.e);
            for k in 0..6 {
                if !v.type_eq(&m.val, k) {
                    return Err((
                        prop,
                        "untouched component changed",
                        format!(
                            "untouched component changed: {} — {} of entity {} (marker {}) in world {} is {} but should be {}",
                            what,
                            TYPE_NAMES[k],
                            se(m.e),
                            m.marker.map_or("none".into(), show),
                            self.name,
                            shown_e(&v).type_str(k),
                            shown_e(&m.val).type_str(k)
                        ),
                    ));
                }
            }
            if x != m.extra {
                return Err((
                    prop,
                    "non-serialised component changed",
                    format!("non-serialised component changed: {} — Extra of entity {} in world {} is {:?} but should be {:?}", what, se(m.e), self.name, x, m.extra),
                ));
            }
            ev.bump("component_sets_compared", 1);
        }
        Ok(())
    }
}

impl<M: Mk> Sim<M> {
    /// Entities the serialiser is expected to transfer: the marked live ones,
    /// for the recursive serialiser closed under reference edges.
    fn closure(&self, recursive: bool) -> BTreeSet<usize> {
        let mut set: BTreeSet<usize> = self.marked_slots().into_iter().collect();
        if recursive {
            let mut stack: Vec<usize> = set.iter().cloned().collect();
            while let Some(s) = stack.pop() {
                for r in self.ents[s].val.refs() {
                    if let Some(&t) = self.by_e.get(&r) {
                        if self.ents[t].live && set.insert(t) {
                            stack.push(t);
                        }
                    }
                }
            }
        }
        set
    }

    /// Establish the precondition of the serialisers (outside the property:
    /// `Entity::convert_into` unwraps `None` for a reference to a dead entity
    /// or, non-recursively, to an unmarked one): remove offending components.
    fn fixup_refs(&mut self, recursive: bool, ev: &mut Ev) {
        loop {
            let set = self.closure(recursive);
            let mut changed = false;
            for &s in &set {
                let bad = {
                    let me = &*self;
                    let ok = move |e: &Entity| if recursive { me.is_live(*e) } else { me.is_live_marked(*e) };
                    self.ents[s].val.bad_ref_types(&ok)
                };
                if bad.iter().any(|b| *b) {
                    let mut v = self.ents[s].val.clone();
                    if bad[0] {
                        v.target = None;
                    }
                    if bad[1] {
                        v.link = None;
                    }
                    if bad[2] {
                        v.rel = None;
                    }
                    ev.bump("dangling_reference_components_removed_before_serialise", bad.iter().filter(|b| **b).count() as u64);
                    ev.log(format!("{}: fixup_dangling_refs({}) {}", self.name, se(self.ents[s].e), shown_e(&v).short()));
                    self.apply_val(s, v);
                    changed = true;
                }
            }
            if !changed {
                break;
            }
        }
    }

    fn serialise(&mut self, recursive: bool, fmt: Fmt, label: usize, origin: char, ev: &mut Ev) -> R<Buf> {
        self.fixup_refs(recursive, ev);
        let set = self.closure(recursive);
        let newly: Vec<usize> = set.iter().cloned().filter(|&s| self.ents[s].marker.is_none()).collect();
        trace::push(&format!("{}: serialise(recursive={}, {}) ...", self.name, recursive, fmt.name()));
        let text = match ser_real::<M>(&self.world, recursive, fmt) {
            Ok(t) => t,
            Err(e) => {
                ev.log(format!("{}: serialise(recursive={}, {}) -> Err({})", self.name, recursive, fmt.name(), e));
                return Err(("C14", "serialize failed", format!("serialize failed: {} in world {} returned an error: {}", if recursive { "serialize_recursive" } else { "serialize" }, self.name, e)));
            }
        };
        // the recursive serialiser marks what it reaches
        for &s in &newly {
            let e = self.ents[s].e;
            match self.real_marker(e) {
                Some(id) => {
                    self.ents[s].marker = Some(id);
                    self.note_id(id);
                    self.stale.remove(&id);
                }
                None => {
                    ev.log(format!("{}: serialise(recursive=true, {}) -> buf#{} {}", self.name, fmt.name(), label, clip(&text)));
                    return Err((
                        "C14",
                        "recursive: reachable entity not marked",
                        format!("recursive: reachable entity not marked: entity {} of world {} is reachable through references from a marked entity but carries no marker after serialize_recursive", se(e), self.name),
                    ));
                }
            }
        }
        let mut recs = Vec::new();
        for &s in &set {
            let id = self.ents[s].marker.unwrap();
            let v = self.ents[s]
                .val
                .try_map(&mut |e: &Entity| {
                    self.by_e.get(e).and_then(|&t| if self.ents[t].live { self.ents[t].marker } else { None }).ok_or_else(|| "harness: unmapped reference".to_string())
                })
                .expect("harness: references of serialised entities are mapped");
            recs.push((id, v));
        }
        let decoded = decode::<M>(&text, fmt);
        let order: Option<Vec<u128>> = decoded.as_ref().map(|d| d.iter().map(|r| r.0).collect()).or_else(|| scan_order::<M>(&text, fmt));
        ev.log(format!(
            "{}: serialise(recursive={}, {}) -> buf#{} {} records [{}] {}",
            self.name,
            recursive,
            fmt.name(),
            label,
            recs.len(),
            recs.iter().map(|(id, _)| show(*id)).collect::<Vec<_>>().join(","),
            clip(&text)
        ));
        ev.bump("serialise_calls", 1);
        ev.bump(if fmt == Fmt::Json { "serialise_json" } else { "serialise_ron" }, 1);
        ev.bump("entities_serialised", recs.len() as u64);
        if recursive {
            ev.bump("recursive_runs", 1);
            ev.bump("recursive_entities_marked_by_serialiser", newly.len() as u64);
            ev.max("max_recursive_closure", set.len() as u64);
            if !newly.is_empty() {
                ev.bump("recursive_runs_that_marked", 1);
            }
        }
        match &order {
            Some(o) => {
                let mut a: Vec<u128> = o.clone();
                a.sort();
                let mut b: Vec<u128> = recs.iter().map(|r| r.0).collect();
                b.sort();
                if a != b {
                    return Err((
                        "C14",
                        "serialised record set",
                        format!(
                            "serialised record set: the data holds records for markers [{}] but the transferred set is [{}] (world {}, recursive={})",
                            a.iter().map(|x| show(*x)).collect::<Vec<_>>().join(","),
                            b.iter().map(|x| show(*x)).collect::<Vec<_>>().join(","),
                            self.name,
                            recursive
                        ),
                    ));
                }
            }
            None => ev.bump("data_scan_unavailable", 1),
        }
        // the data itself, read back with plain serde, equals the world's content
        match &decoded {
            Some(d) => {
                let want: BTreeMap<u128, &Val<u128>> = recs.iter().map(|(i, v)| (*i, v)).collect();
                for (id, got) in d {
                    let w = want[id];
                    for k in 0..6 {
                        if !got.type_eq(w, k) {
                            return Err((
                                "C14",
                                "serialised data differs from world",
                                format!(
                                    "serialised data differs from world: record of marker {} in buf#{} (world {}, {}) holds {} = {} but the entity has {} (references by marker of the referenced entity)",
                                    show(*id),
                                    label,
                                    self.name,
                                    if recursive { "serialize_recursive" } else { "serialize" },
                                    TYPE_NAMES[k],
                                    shown(got).type_str(k),
                                    shown(w).type_str(k)
                                ),
                            ));
                        }
                    }
                    ev.bump("serialised_records_verified_against_world", 1);
                }
            }
            None => ev.bump("data_decode_unavailable", 1),
        }
        Ok(Buf { label, origin, fmt, text, recs, order, recursive, permuted: false })
    }

    /// Deserialise `buf` into this world and check the merge expectation.
    fn load(&mut self, buf: &Buf, prop: &'static str, ev: &mut Ev) -> R<LoadStats> {
        let what = format!("after loading buf#{}", buf.label);
        let mut stats = LoadStats::default();
        stats.stale_before = self.stale.len() as u64;
        let pre_live: BTreeSet<Entity> = self.ents.iter().filter(|m| m.live).map(|m| m.e).collect();
        let carrier: BTreeMap<u128, usize> = self.marked_slots().into_iter().map(|s| (self.ents[s].marker.unwrap(), s)).collect();
        if !M::UUID {
            let c = self.counter_estimate();
            stats.above_counter = buf.recs.iter().filter(|(id, _)| *id >= c).count() as u64;
        }
        let line = format!(
            "{}: deserialise(buf#{} from {}, {}{}) records [{}]",
            self.name,
            buf.label,
            buf.origin,
            buf.fmt.name(),
            match (buf.recursive, buf.permuted) {
                (false, false) => "",
                (true, false) => ", recursive",
                (false, true) => ", permuted",
                (true, true) => ", recursive, permuted",
            },
            buf.recs.iter().map(|(id, _)| show(*id)).collect::<Vec<_>>().join(",")
        );
        trace::push(&format!("{} ...", line));
        let r = de_real::<M>(&self.world, &buf.text, buf.fmt);
        ev.log(format!("{} -> {}", line, if r.is_ok() { "Ok" } else { "Err" }));
        if let Err(e) = r {
            return Err((prop, "deserialize failed", format!("deserialize failed: loading buf#{} into world {} returned an error: {}", buf.label, self.name, e)));
        }
        ev.bump("loads", 1);
        ev.bump(if buf.fmt == Fmt::Json { "loads_json" } else { "loads_ron" }, 1);
        let now_live: Vec<Entity> = self.world.entities().join().collect();
        let now_set: BTreeSet<Entity> = now_live.iter().cloned().collect();
        if let Some(e) = pre_live.difference(&now_set).next() {
            return Err((prop, "entity vanished", format!("entity vanished: {} entity {} of world {} is no longer alive", what, se(*e), self.name)));
        }
        let rec_ids: BTreeSet<u128> = buf.recs.iter().map(|r| r.0).collect();
        let mut created: BTreeMap<u128, Entity> = BTreeMap::new();
        for e in now_live.iter().filter(|e| !pre_live.contains(e)) {
            let id = match self.real_marker(*e) {
                Some(id) => id,
                None => {
                    return Err((prop, "load created an unmarked entity", format!("load created an unmarked entity: {} new entity {} in world {} carries no marker", what, se(*e), self.name)));
                }
            };
            if let Some(&s) = carrier.get(&id) {
                return Err((
                    prop,
                    "load created a duplicate",
                    format!(
                        "load created a duplicate: {} new entity {} carries marker {} which live entity {} of world {} already carried before the load (expected an in-place update)",
                        what, se(*e), show(id), se(self.ents[s].e), self.name
                    ),
                ));
            }
            if !rec_ids.contains(&id) {
                return Err((prop, "load created an entity for a marker not in the data", format!("load created an entity for a marker not in the data: {} new entity {} carries marker {}", what, se(*e), show(id))));
            }
            if let Some(prev) = created.insert(id, *e) {
                return Err((
                    prop,
                    "duplicate marker id",
                    format!("duplicate marker id: {} two new entities {} and {} of world {} carry marker {}", what, se(prev), se(*e), self.name, show(id)),
                ));
            }
        }
        for (id, _) in &buf.recs {
            if !carrier.contains_key(id) && !created.contains_key(id) {
                return Err((
                    prop,
                    "no entity for unknown marker",
                    format!(
                        "no entity for unknown marker: {} no live entity of world {} carries marker {} (not carried by any live entity before the load, so exactly one new entity was expected{})",
                        what,
                        self.name,
                        show(*id),
                        if self.stale.contains(id) { "; the allocator still mapped the id to a deleted entity" } else { "" }
                    ),
                ));
            }
        }
        // model: new entities
        let mut slot_of: BTreeMap<u128, usize> = carrier.clone();
        // (in entity order, not marker order: uuid values must not influence slot numbers)
        let mut created_list: Vec<(Entity, u128)> = created.iter().map(|(id, e)| (*e, *id)).collect();
        created_list.sort();
        for (e, id) in &created_list {
            if self.stale.contains(id) {
                stats.created_over_stale += 1;
            }
            let s = self.add_ent(*e, Some(*id), false);
            slot_of.insert(*id, s);
            stats.creates += 1;
        }
        // per record: same marker, component types present iff recorded, values equal
        let rd = Rd::new(&self.world);
        let st = self.world.read_storage::<M>();
        let mut new_vals: Vec<(usize, Val<Entity>)> = Vec::new();
        for (id, want) in &buf.recs {
            let s = slot_of[id];
            let e = self.ents[s].e;
            let existed = carrier.contains_key(id);
            match st.get(e).map(|m| m.key()) {
                Some(x) if x == *id => {}
                other => {
                    return Err((
                        prop,
                        "updated entity lost its marker",
                        format!("updated entity lost its marker: {} entity {} of world {} carried marker {} and now carries {}", what, se(e), self.name, show(*id), other.map_or("none".into(), show)),
                    ));
                }
            }
            let (got_e, _) = rd.get(e);
            let got = got_e.try_map(&mut |r: &Entity| {
                ev.bump("references_checked", 1);
                st.get(*r).map(|m| m.key()).ok_or_else(|| format!("refers to {} which carries no marker", se(*r)))
            });
            let got = match got {
                Ok(g) => g,
                Err(msg) => {
                    return Err((
                        prop,
                        "reference to unmarked entity",
                        format!("reference to unmarked entity: {} entity {} (marker {}) of world {}: {} (data: {})", what, se(e), show(*id), self.name, msg, shown(want).short()),
                    ));
                }
            };
            for k in 0..6 {
                if got.type_eq(want, k) {
                    continue;
                }
                let (wp, gp) = (want.present()[k], got.present()[k]);
                let (kind, detail): (&'static str, String) = if !wp && gp && existed {
                    ("absent component not removed", format!("the data records {} as absent but the updated entity still has {}", TYPE_NAMES[k], shown(&got).type_str(k)))
                } else if !wp && gp {
                    ("component not in data", format!("the data records {} as absent but the created entity has {}", TYPE_NAMES[k], shown(&got).type_str(k)))
                } else if wp && !gp {
                    ("component missing", format!("the data holds {} = {} but the entity has none", TYPE_NAMES[k], shown(want).type_str(k)))
                } else if k >= 3 {
                    ("reference mismatch", format!("{} is {} (by marker of the referenced entity) but the data says {}", TYPE_NAMES[k], shown(&got).type_str(k), shown(want).type_str(k)))
                } else {
                    ("value mismatch", format!("{} is {} but the data says {}", TYPE_NAMES[k], shown(&got).type_str(k), shown(want).type_str(k)))
                };
                return Err((
                    prop,
                    kind,
                    format!("{}: {} entity {} (marker {}, {}) of world {}: {}", kind, what, se(e), show(*id), if existed { "updated in place" } else { "created by the load" }, self.name, detail),
                ));
            }
            if existed {
                stats.updates += 1;
                let before = self.ents[s].val.present();
                let wp = want.present();
                stats.removed_absent += (0..6).filter(|&k| before[k] && !wp[k]).count() as u64;
            }
            new_vals.push((s, got_e));
        }
        drop(rd);
        drop(st);
        for (s, v) in new_vals {
            self.ents[s].val = v;
        }
        ev.bump("load_records", buf.recs.len() as u64);
        ev.bump("load_updates_in_place", stats.updates);
        ev.bump("load_creates", stats.creates);
        ev.bump("load_components_removed_as_absent", stats.removed_absent);
        ev.bump("load_creates_over_stale_mapping", stats.created_over_stale);
        ev.bump("load_records_with_id_above_counter", stats.above_counter);
        self.check_markers(prop, ev)?;
        self.check_vals(prop, &what, ev)?;
        Ok(stats)
    }
}

/// Data text for the history: flattened, shortened, random uuids replaced by
/// their per-case aliases so that a case prints identically on every run.
fn clip(s: &str) -> String {
    let flat: String = s.split_whitespace().collect::<Vec<_>>().join(" ");
    let long = flat.chars().count() > 700;
    let mut out: String = if long { flat.chars().take(700).collect() } else { flat };
    NAMES.with(|n| {
        let n = n.borrow();
        if n.0 {
            for (id, k) in n.1.iter() {
                let u = specs::uuid::Uuid::from_u128(*id).to_string();
                if out.contains(&u) {
                    out = out.replace(&u, &format!("u{}", k));
                }
            }
        }
    });
    if long {
        if let Some(i) = out.rfind(',') {
            out.truncate(i);
        }
        out.push('…');
    }
    out
}

// ---------------------------------------------------------------------------
// Value generators
// ---------------------------------------------------------------------------

fn gen_name(rng: &mut Rng) -> String {
    const CH: [char; 12] = ['a', 'b', 'Z', '0', '9', ' ', '_', '-', 'é', 'x', 'Q', '.'];
    let n = rng.below(9);
    (0..n).map(|_| *rng.pick(&CH)).collect()
}

fn gen_i32(rng: &mut Rng) -> i32 {
    match rng.below(8) {
        0 => i32::MIN,
        1 => i32::MAX,
        2 => 0,
        _ => (rng.next() % 2001) as i32 - 1000,
    }
}

/// Plain components with presence probabilities `p[k]`/16.
fn gen_plain<T: Clone + PartialEq + std::fmt::Debug>(rng: &mut Rng, p: &[u32; 6]) -> Val<T> {
    let mut v = Val::empty();
    if rng.chance(p[0], 16) {
        v.pos = Some((gen_i32(rng), gen_i32(rng)));
    }
    if rng.chance(p[1], 16) {
        v.name = Some(gen_name(rng));
    }
    if rng.chance(p[2], 16) {
        let n = rng.below(5);
        v.tags = Some((0..n).map(|_| (rng.next() % 65536) as u16).collect());
    }
    v
}

/// Reference components; `pick` chooses a target (None = no candidate).
fn gen_refs<T: Clone + PartialEq + std::fmt::Debug>(rng: &mut Rng, v: &mut Val<T>, p: &[u32; 6], pick: &mut dyn FnMut(&mut Rng) -> Option<T>) {
    if rng.chance(p[3], 16) {
        if let Some(t) = pick(rng) {
            v.target = Some(t);
        }
    }
    if rng.chance(p[4], 16) {
        if let (Some(a), Some(b)) = (pick(rng), pick(rng)) {
            v.link = Some((a, b, (rng.next() % 100) as u32));
        }
    }
    if rng.chance(p[5], 16) {
        v.rel = match rng.below(5) {
            0 => Some(RelV::None),
            1 | 2 => pick(rng).map(RelV::One),
            3 => match (pick(rng), pick(rng)) {
                (Some(a), Some(b)) => Some(RelV::Pair(a, b)),
                _ => Some(RelV::None),
            },
            _ => match (pick(rng), pick(rng)) {
                (Some(a), Some(b)) => Some(RelV::Two(a, b)),
                _ => Some(RelV::None),
            },
        };
    }
}

fn gen_presence(rng: &mut Rng) -> [u32; 6] {
    let mut p = [0u32; 6];
    let base = *rng.pick(&[4u32, 8, 12, 16]);
    for k in 0..6 {
        p[k] = match rng.below(6) {
            0 => 0,
            1 => 16,
            _ => base,
        };
    }
    p
}

fn pick_fmt(rng: &mut Rng) -> Fmt {
    match rng.below(4) {
        0 | 1 => Fmt::Json,
        2 => Fmt::Ron,
        _ => Fmt::RonPretty,
    }
}

/// Shuffle the top-level array of a JSON buffer.
fn permute_json<M: Mk>(rng: &mut Rng, buf: &mut Buf) -> bool {
    if buf.fmt != Fmt::Json {
        return false;
    }
    let mut v: serde_json::Value = match serde_json::from_str(&buf.text) {
        Ok(v) => v,
        Err(_) => return false,
    };
    match v.as_array_mut() {
        Some(a) if a.len() >= 2 => rng.shuffle(a),
        _ => return false,
    }
    buf.text = serde_json::to_string(&v).expect("harness: re-serialise json");
    buf.order = scan_order::<M>(&buf.text, Fmt::Json);
    buf.permuted = true;
    true
}

struct GraphStats {
    refs: u64,
    self_loops: u64,
    forward: u64,
    cyclic: bool,
    lacking: u64,
}

/// Reference graph among the records of a buffer (marker-id space).
fn graph_stats(buf: &Buf) -> GraphStats {
    let idx: BTreeMap<u128, usize> = buf.recs.iter().enumerate().map(|(i, r)| (r.0, i)).collect();
    let pos: BTreeMap<u128, usize> = match &buf.order {
        Some(o) => o.iter().enumerate().map(|(i, id)| (*id, i)).collect(),
        None => BTreeMap::new(),
    };
    let n = buf.recs.len();
    let mut adj: Vec<Vec<usize>> = vec![Vec::new(); n];
    let mut g = GraphStats { refs: 0, self_loops: 0, forward: 0, cyclic: false, lacking: 0 };
    for (i, (id, v)) in buf.recs.iter().enumerate() {
        if v.present().iter().any(|p| !*p) {
            g.lacking += 1;
        }
        for r in v.refs() {
            g.refs += 1;
            if r == *id {
                g.self_loops += 1;
            }
            if let (Some(a), Some(b)) = (pos.get(id), pos.get(&r)) {
                if b > a {
                    g.forward += 1;
                }
            }
            if let Some(&j) = idx.get(&r) {
                adj[i].push(j);
            }
        }
    }
    // iterative DFS, colours 0 white / 1 grey / 2 black
    let mut col = vec![0u8; n];
    for s in 0..n {
        if col[s] != 0 || g.cyclic {
            continue;
        }
        let mut stack: Vec<(usize, usize)> = vec![(s, 0)];
        col[s] = 1;
        while let Some(&(u, k)) = stack.last() {
            if k < adj[u].len() {
                stack.last_mut().unwrap().1 += 1;
                let v = adj[u][k];
                if col[v] == 1 {
                    g.cyclic = true;
                    break;
                }
                if col[v] == 0 {
                    col[v] = 1;
                    stack.push((v, 0));
                }
            } else {
                col[u] = 2;
                stack.pop();
            }
        }
    }
    g
}

// ---------------------------------------------------------------------------
// C14: one round trip
// ---------------------------------------------------------------------------

struct Outcome {
    nontrivial: bool,
}

fn c14_case<M: Mk>(rng: &mut Rng, ev: &mut Ev) -> R<Outcome> {
    trace::set_ctx("C14");
    ev.bump(if M::UUID { "worlds_uuid_marker" } else { "worlds_simple_marker" }, 1);
    let n = match rng.below(40) {
        0 => rng.range(61, 300),
        1 | 2 => 0,
        3 | 4 => rng.range(1, 2),
        _ => rng.range(1, 60),
    };
    let recursive = rng.chance(1, 3);
    let fmt = pick_fmt(rng);
    let pm = *rng.pick(&[0u32, 5, 11, 16, 16]);
    let pres = gen_presence(rng);
    let marked: Vec<bool> = (0..n).map(|_| rng.chance(pm, 16)).collect();
    let marked_slots: Vec<usize> = (0..n).filter(|&i| marked[i]).collect();
    // model first (slot space), so that forward references exist before their targets do
    let mut vals: Vec<Val<usize>> = Vec::with_capacity(n);
    for i in 0..n {
        let mut v: Val<usize> = gen_plain(rng, &pres);
        let free = recursive || !marked[i];
        let ms = &marked_slots;
        let mut pick = |rng: &mut Rng| -> Option<usize> {
            let allowed = |t: usize| free || marked[t];
            match rng.below(8) {
                0 if allowed(i) => Some(i),
                1 | 2 | 3 => {
                    // forward: a later slot
                    if free {
                        if i + 1 < n {
                            Some(rng.range(i + 1, n - 1))
                        } else {
                            Some(i)
                        }
                    } else {
                        let later: Vec<usize> = ms.iter().cloned().filter(|&t| t > i).collect();
                        if later.is_empty() {
                            ms.last().cloned()
                        } else {
                            Some(*rng.pick(&later))
                        }
                    }
                }
                _ => {
                    if free {
                        Some(rng.below(n))
                    } else if ms.is_empty() {
                        None
                    } else {
                        Some(*rng.pick(ms))
                    }
                }
            }
        };
        gen_refs(rng, &mut v, &pres, &mut pick);
        vals.push(v);
    }
    // planted rings through Target
    let ring_pool: Vec<usize> = if recursive { (0..n).collect() } else { marked_slots.clone() };
    if ring_pool.len() >= 2 && rng.chance(2, 3) {
        let k = rng.range(2, ring_pool.len().min(5));
        let mut pool = ring_pool.clone();
        rng.shuffle(&mut pool);
        for j in 0..k {
            vals[pool[j]].target = Some(pool[(j + 1) % k]);
        }
        ev.bump("planted_rings", 1);
    }

    // source world; some junk first so that indices are recycled and slot order != index order
    let mut src: Sim<M> = Sim::new("S");
    let junk = if rng.chance(1, 2) { rng.below(6) } else { 0 };
    let mut junk_slots = Vec::new();
    for _ in 0..junk {
        let marked_junk = rng.chance(1, 2);
        // (lazily marked junk deleted before the maintain: the queued `mark` then meets a dead handle)
        let how = match rng.below(4) {
            0 => How::Lazy,
            1 => How::Res,
            _ => How::Builder { marked: marked_junk },
        };
        junk_slots.push(src.create(how, &Val::empty(), ev));
    }
    for s in junk_slots {
        if rng.chance(1, 2) {
            src.delete_now(s, ev)?;
        } else {
            src.delete_deferred(s, ev)?;
        }
    }
    if junk > 0 {
        src.maintain(ev);
    }
    let mut slot_of: Vec<usize> = Vec::with_capacity(n);
    let mut mark_later = Vec::new();
    for i in 0..n {
        let how = if marked[i] {
            match rng.below(6) {
                0 => How::Lazy,
                1 => How::Res,
                2 => {
                    mark_later.push(i);
                    How::Builder { marked: false }
                }
                _ => How::Builder { marked: true },
            }
        } else {
            How::Builder { marked: false }
        };
        slot_of.push(src.create(how, &Val::empty(), ev));
    }
    if rng.chance(1, 3) {
        // the application refreshes its marker allocator before marking more entities
        src.maintain(ev);
        src.alloc_maintain(ev);
    }
    for i in mark_later {
        src.mark(slot_of[i], "C14", ev)?;
    }
    src.maintain(ev);
    for i in 0..n {
        let s = slot_of[i];
        let v = vals[i].try_map(&mut |t: &usize| Ok(src.ents[slot_of[*t]].e)).unwrap();
        if v != Val::empty() {
            src.set_val(s, v, ev);
        }
        if rng.chance(1, 4) {
            src.set_extra(s, Some((rng.next() % 1000) as u32), ev);
        }
    }
    src.check_markers("C14", ev)?;
    ev.bump("worlds", 1);
    ev.bump("source_entities", n as u64);
    ev.max("max_source_entities", n as u64);

    let mut buf = src.serialise(recursive, fmt, 0, 'S', ev)?;
    src.check_markers("C14", ev)?;
    src.check_vals("C14", "after serialising", ev)?;
    if ev.c.get("dangling_reference_components_removed_before_serialise").is_some() {
        // cannot happen: the generator only emits references allowed by the precondition
        ev.bump("c14_unexpected_fixups", 1);
    }
    let unmarked_left = src.unmarked_slots().len() as u64;
    ev.bump("unmarked_source_entities_not_transferred", unmarked_left);
    if rng.chance(1, 2) && permute_json::<M>(rng, &mut buf) {
        ev.bump("permuted_loads", 1);
        ev.log(format!("S: permute(buf#0) {}", clip(&buf.text)));
    }
    let g = graph_stats(&buf);
    ev.bump("references_in_data", g.refs);
    ev.bump("self_loops", g.self_loops);
    ev.bump("forward_references", g.forward);
    if g.cyclic {
        ev.bump("worlds_with_cycle", 1);
    }

    // "An empty world" is usually a fresh one; in 1 of 5 cases it is the source world itself after
    // every entity in it was deleted - its marker allocator still remembers the old entities.
    let mut dst: Sim<M> = if rng.chance(1, 5) {
        for s in src.live_slots() {
            if rng.chance(1, 2) {
                src.delete_now(s, ev)?;
            } else {
                src.delete_deferred(s, ev)?;
            }
        }
        src.maintain(ev);
        ev.bump("loads_into_emptied_source_world", 1);
        src
    } else {
        Sim::new("L")
    };
    let stats = dst.load(&buf, "C14", ev)?;
    if stats.creates as usize != buf.recs.len() || dst.live_slots().len() != buf.recs.len() {
        return Err((
            "C14",
            "entity count",
            format!("entity count: loading {} records into an empty world left {} live entities", buf.recs.len(), dst.live_slots().len()),
        ));
    }
    dst.maintain(ev);
    dst.check_markers("C14", ev)?;
    dst.check_vals("C14", "after world.maintain() following the load", ev)?;
    // second generation: what was loaded serialises to the same records again
    if rng.chance(1, 4) {
        let buf2 = dst.serialise(false, pick_fmt(rng), 1, 'S', ev)?;
        let a: BTreeMap<u128, &Val<u128>> = buf.recs.iter().map(|(i, v)| (*i, v)).collect();
        for (id, v) in &buf2.recs {
            if a.get(id).map_or(true, |w| *w != v) {
                return Err(("C14", "second generation differs", format!("second generation differs: record of marker {} changed after a load/save cycle: {} vs {}", show(*id), shown(v).short(), a.get(id).map_or("none".into(), |w| shown(w).short()))));
            }
        }
        let mut dst2: Sim<M> = Sim::new("L2");
        dst2.load(&buf2, "C14", ev)?;
        ev.bump("second_generation_round_trips", 1);
    }
    ev.sig.push(n as u64);
    ev.sig.push(buf.recs.len() as u64);
    ev.sig.push(g.refs);
    ev.sig.push(g.forward);
    ev.sig.push(recursive as u64 * 2 + buf.permuted as u64);
    Ok(Outcome { nontrivial: (g.cyclic || g.forward > 0) && g.lacking > 0 })
}

// ---------------------------------------------------------------------------
// C15: one history over a target world
// ---------------------------------------------------------------------------

#[derive(Clone, Copy, Debug, PartialEq, Eq)]
enum Op {
    CreateBuilder,
    CreateLazy,
    CreateRes,
    CreateUnmarked,
    Mark,
    MarkAgain,
    UnmarkRemarkSync,
    DeleteNow,
    DeleteDeferred,
    Maintain,
    AllocMaintain,
    Mutate,
    Serialise,
    LoadOwn,
    LoadFresh,
    LoadFreshAbove,
    LoadDerived,
    Reload,
    // directed variants used by planted motifs
    MutateAddOnMarked,
    DeleteNowMarked,
    DeleteDeferredMarked,
    LoadLastOwn,
}

fn target_val<M: Mk>(rng: &mut Rng, t: &Sim<M>, me: Option<Entity>, pres: &[u32; 6]) -> Val<Entity> {
    let mut v: Val<Entity> = gen_plain(rng, pres);
    let marked: Vec<Entity> = t.marked_slots().iter().map(|&s| t.ents[s].e).collect();
    let live: Vec<Entity> = t.live_slots().iter().map(|&s| t.ents[s].e).collect();
    let mut pick = |rng: &mut Rng| -> Option<Entity> {
        match rng.below(10) {
            0 | 1 if me.is_some() => me,
            2 if !live.is_empty() => Some(*rng.pick(&live)),
            _ if !marked.is_empty() => Some(*rng.pick(&marked)),
            _ => None,
        }
    };
    gen_refs(rng, &mut v, pres, &mut pick);
    v
}

/// Fill a world with `n` marked entities referring to each other.
fn populate<M: Mk>(rng: &mut Rng, o: &mut Sim<M>, n: usize, ev: &mut Ev) -> R {
    let pres = gen_presence(rng);
    let mut slots = Vec::new();
    for _ in 0..n {
        let how = match rng.below(5) {
            0 => How::Lazy,
            1 => How::Res,
            _ => How::Builder { marked: true },
        };
        let plain: Val<Entity> = gen_plain(rng, &pres);
        slots.push(o.create(how, &plain, ev));
    }
    o.maintain(ev);
    for &s in &slots {
        let me = o.ents[s].e;
        let v = target_val(rng, o, Some(me), &pres);
        o.set_val(s, v, ev);
    }
    o.check_markers("C15", ev)
}

/// Buffer from a brand-new other world whose allocator counter was advanced by `skip`.
fn other_fresh<M: Mk>(rng: &mut Rng, skip: u128, label: usize, ev: &mut Ev) -> R<Buf> {
    let mut o: Sim<M> = Sim::new(&format!("O{}", label));
    let skip = skip.min(400) as usize;
    if skip > 0 {
        // advance the counter: mark and delete throw-away entities
        for _ in 0..skip {
            let e = o.world.create_entity().marked::<M>().build();
            o.world.delete_entity(e).expect("harness: delete junk");
        }
        ev.log(format!("{}: advance_counter({})", o.name, skip));
        if rng.chance(1, 2) {
            o.alloc_maintain(ev);
        }
    }
    let n = rng.range(1, 4);
    populate(rng, &mut o, n, ev)?;
    o.serialise(rng.chance(1, 4), pick_fmt(rng), label, 'F', ev)
}

/// Buffer from another world that first loaded `base` (so it shares marker
/// ids with it), then changed components, deleted and added entities.
fn other_derived<M: Mk>(rng: &mut Rng, base: &Buf, label: usize, ev: &mut Ev) -> R<Buf> {
    let mut o: Sim<M> = Sim::new(&format!("O{}", label));
    o.load(base, "C14", ev)?;
    if rng.chance(1, 2) {
        o.maintain(ev);
    }
    let pres = gen_presence(rng);
    for s in o.live_slots() {
        match rng.below(4) {
            0 => o.delete_now(s, ev)?,
            1 | 2 => {
                let me = o.ents[s].e;
                let v = target_val(rng, &o, Some(me), &pres);
                o.set_val(s, v, ev);
            }
            _ => {}
        }
    }
    let extra = rng.below(3);
    if extra > 0 {
        populate(rng, &mut o, extra, ev)?;
    }
    o.check_markers("C15", ev)?;
    o.serialise(false, pick_fmt(rng), label, 'D', ev)
}

fn c15_case<M: Mk>(rng: &mut Rng, ops: usize, ev: &mut Ev) -> R<Outcome> {
    trace::set_ctx("C15");
    ev.bump(if M::UUID { "histories_uuid_marker" } else { "histories_simple_marker" }, 1);
    let mut t: Sim<M> = Sim::new("T");
    let mut pool: Vec<Buf> = Vec::new();
    let mut last_loaded: Option<usize> = None;
    let mut last_own: Option<usize> = None;
    let mut planned: VecDeque<Op> = VecDeque::new();
    let pres = gen_presence(rng);
    let nops = rng.range(ops / 3 + 1, ops.max(ops / 3 + 1));
    let max_live = 9usize;
    let mut nontrivial = false;
    let mut deletions_of_marked = 0u64;
    for _step in 0..nops {
        let op = if let Some(op) = planned.pop_front() {
            op
        } else if rng.chance(1, 9) {
            let motif: &[Op] = match rng.below(6) {
                0 | 1 => &[Op::CreateBuilder, Op::CreateRes, Op::Serialise, Op::MutateAddOnMarked, Op::DeleteNowMarked, Op::CreateUnmarked, Op::LoadLastOwn],
                2 => &[Op::LoadFreshAbove, Op::CreateBuilder, Op::CreateRes, Op::CreateLazy, Op::Maintain, Op::CreateBuilder],
                3 => &[Op::Serialise, Op::DeleteDeferredMarked, Op::LoadLastOwn, Op::Maintain, Op::Reload],
                4 => &[Op::CreateLazy, Op::LoadFresh, Op::Maintain, Op::Mark],
                _ => &[Op::Serialise, Op::DeleteNowMarked, Op::Maintain, Op::CreateBuilder, Op::MutateAddOnMarked, Op::LoadLastOwn, Op::Reload],
            };
            planned.extend(motif.iter().cloned());
            ev.bump("planted_motifs", 1);
            planned.pop_front().unwrap()
        } else {
            let live = t.live_slots().len();
            let grow: u32 = if live < 2 { 40 } else if live >= max_live { 2 } else { 12 };
            // loads create entities too: keep the live set small in long histories
            let shrink: u32 = if live > 2 * max_live { 5 } else { 1 };
            let ops_all = [
                (Op::CreateBuilder, grow),
                (Op::CreateLazy, grow / 2),
                (Op::CreateRes, grow / 2),
                (Op::CreateUnmarked, grow / 2),
                (Op::Mark, 8),
                (Op::MarkAgain, 8),
                (Op::UnmarkRemarkSync, 4),
                (Op::DeleteNow, 10 * shrink),
                (Op::DeleteDeferred, 7 * shrink),
                (Op::Maintain, 9),
                (Op::AllocMaintain, 4),
                (Op::Mutate, 14),
                (Op::Serialise, 12),
                (Op::LoadOwn, 12),
                (Op::LoadFresh, 4),
                (Op::LoadFreshAbove, 4),
                (Op::LoadDerived, 6),
                (Op::Reload, 5),
            ];
            let w: Vec<u32> = ops_all.iter().map(|x| x.1).collect();
            ops_all[rng.weighted(&w)].0
        };
        let mut to_load: Option<usize> = None;
        match op {
            Op::CreateBuilder | Op::CreateUnmarked => {
                let v = target_val(rng, &t, None, &pres);
                t.create(How::Builder { marked: op == Op::CreateBuilder }, &v, ev);
            }
            Op::CreateLazy | Op::CreateRes => {
                let v = if rng.chance(1, 2) { target_val(rng, &t, None, &pres) } else { Val::empty() };
                t.create(if op == Op::CreateLazy { How::Lazy } else { How::Res }, &v, ev);
            }
            Op::Mark | Op::MarkAgain => {
                let (a, b) = (t.unmarked_slots(), t.marked_slots());
                let c = if op == Op::Mark && !a.is_empty() { a } else if !b.is_empty() { b } else { a };
                if !c.is_empty() {
                    let s = *rng.pick(&c);
                    t.mark(s, "C15", ev)?;
                }
            }
            Op::UnmarkRemarkSync => {
                let b = t.marked_slots();
                if !b.is_empty() {
                    let s = *rng.pick(&b);
                    t.unmark_remark_sync(s, ev)?;
                }
            }
            Op::DeleteNow | Op::DeleteDeferred | Op::DeleteNowMarked | Op::DeleteDeferredMarked => {
                let m = t.marked_slots();
                let l = t.live_slots();
                let directed = matches!(op, Op::DeleteNowMarked | Op::DeleteDeferredMarked);
                let c = if !m.is_empty() && (directed || rng.chance(3, 4)) { m } else { l };
                // prefer an entity that is in the buffer about to be reloaded
                let c2: Vec<usize> = if directed {
                    match last_own {
                        Some(i) => c.iter().cloned().filter(|&s| t.ents[s].marker.map_or(false, |id| pool[i].recs.iter().any(|r| r.0 == id))).collect(),
                        None => Vec::new(),
                    }
                } else {
                    Vec::new()
                };
                let c = if c2.is_empty() { c } else { c2 };
                if !c.is_empty() {
                    let s = *rng.pick(&c);
                    if t.ents[s].marker.is_some() {
                        deletions_of_marked += 1;
                    }
                    if matches!(op, Op::DeleteNow | Op::DeleteNowMarked) {
                        t.delete_now(s, ev)?;
                    } else if !t.ents[s].pending_delete {
                        t.delete_deferred(s, ev)?;
                    }
                }
            }
            Op::Maintain => t.maintain(ev),
            Op::AllocMaintain => t.alloc_maintain(ev),
            Op::Mutate => {
                let l = t.live_slots();
                if !l.is_empty() {
                    let s = *rng.pick(&l);
                    let fresh = target_val(rng, &t, Some(t.ents[s].e), &[8; 6]);
                    let mut v = t.ents[s].val.clone();
                    for k in 0..6 {
                        if rng.chance(1, 3) {
                            match k {
                                0 => v.pos = fresh.pos,
                                1 => v.name = fresh.name.clone(),
                                2 => v.tags = fresh.tags.clone(),
                                3 => v.target = fresh.target,
                                4 => v.link = fresh.link,
                                _ => v.rel = fresh.rel.clone(),
                            }
                        }
                    }
                    t.set_val(s, v, ev);
                    if rng.chance(1, 3) {
                        let x = if rng.chance(1, 4) { None } else { Some((rng.next() % 1000) as u32) };
                        t.set_extra(s, x, ev);
                    }
                }
            }
            Op::MutateAddOnMarked => {
                // give a marked entity (preferably one recorded in the last own buffer) a
                // component type the buffer records as absent
                let m = t.marked_slots();
                let mut done = false;
                if let Some(i) = last_own {
                    let mut cands: Vec<(usize, usize)> = Vec::new();
                    for &s in &m {
                        if let Some((_, rv)) = pool[i].recs.iter().find(|r| Some(r.0) == t.ents[s].marker) {
                            for k in 0..3 {
                                if !rv.present()[k] {
                                    cands.push((s, k));
                                }
                            }
                        }
                    }
                    if !cands.is_empty() {
                        let (s, k) = *rng.pick(&cands);
                        let fresh: Val<Entity> = gen_plain(rng, &[16; 6]);
                        let mut v = t.ents[s].val.clone();
                        match k {
                            0 => v.pos = fresh.pos,
                            1 => v.name = fresh.name,
                            _ => v.tags = fresh.tags,
                        }
                        t.set_val(s, v, ev);
                        if t.ents[s].extra.is_none() {
                            t.set_extra(s, Some((rng.next() % 1000) as u32), ev);
                        }
                        done = true;
                    }
                }
                if !done && !m.is_empty() {
                    let s = *rng.pick(&m);
                    let fresh: Val<Entity> = gen_plain(rng, &[16; 6]);
                    let mut v = t.ents[s].val.clone();
                    v.pos = fresh.pos;
                    v.tags = fresh.tags;
                    t.set_val(s, v, ev);
                }
            }
            Op::Serialise => {
                if pool.len() < 24 {
                    let rec = rng.chance(1, 4);
                    let b = t.serialise(rec, pick_fmt(rng), pool.len(), 'T', ev)?;
                    last_own = Some(pool.len());
                    pool.push(b);
                }
            }
            Op::LoadOwn => {
                let own: Vec<usize> = (0..pool.len()).filter(|&i| pool[i].origin == 'T').collect();
                if !own.is_empty() {
                    to_load = Some(*rng.pick(&own));
                }
            }
            Op::LoadLastOwn => to_load = last_own,
            Op::Reload => to_load = last_loaded,
            Op::LoadFresh | Op::LoadFreshAbove => {
                if pool.len() < 24 {
                    let skip = if op == Op::LoadFreshAbove {
                        t.counter_estimate() + rng.below(3) as u128
                    } else if rng.chance(1, 2) {
                        0
                    } else {
                        rng.below((t.counter_estimate() as usize).min(40) + 2) as u128
                    };
                    let b = other_fresh::<M>(rng, if M::UUID { 0 } else { skip }, pool.len(), ev)?;
                    to_load = Some(pool.len());
                    pool.push(b);
                }
            }
            Op::LoadDerived => {
                if !pool.is_empty() && pool.len() < 24 {
                    let base = pool[rng.below(pool.len())].clone();
                    let b = other_derived::<M>(rng, &base, pool.len(), ev)?;
                    to_load = Some(pool.len());
                    pool.push(b);
                }
            }
        }
        if let Some(i) = to_load {
            let mut b = pool[i].clone();
            if rng.chance(1, 3) && permute_json::<M>(rng, &mut b) {
                ev.bump("permuted_loads", 1);
            }
            t.check_vals("C04", "before a load (harness self-check)", ev)?;
            if last_loaded == Some(i) {
                ev.bump("repeated_loads_of_same_buffer", 1);
            }
            match b.origin {
                'T' => ev.bump("loads_of_own_past_buffer", 1),
                'F' => ev.bump("loads_from_fresh_other_world", 1),
                _ => ev.bump("loads_from_derived_other_world", 1),
            }
            let s = t.load(&b, "C15", ev)?;
            last_loaded = Some(i);
            if s.updates >= 1 && s.creates >= 1 {
                ev.bump("loads_updating_and_creating", 1);
            }
            if s.above_counter > 0 && s.above_counter == b.recs.len() as u64 {
                ev.bump("loads_entirely_above_counter", 1);
            }
            if s.updates >= 1 && s.removed_absent >= 1 && s.creates >= 1 && s.stale_before >= 1 && deletions_of_marked >= 1 {
                nontrivial = true;
                ev.bump("nontrivial_loads", 1);
            }
        }
        t.check_markers("C15", ev)?;
    }
    // end of history: settle and check once more
    t.maintain(ev);
    t.check_markers("C15", ev)?;
    t.check_vals("C04", "at the end of the history (harness self-check)", ev)?;
    ev.bump("histories", 1);
    ev.max("max_buffers_in_pool", pool.len() as u64);
    Ok(Outcome { nontrivial })
}

// ---------------------------------------------------------------------------
// Driver
// ---------------------------------------------------------------------------

fn run_case(rep: &mut Report, case: u64) {
    let cfg = rep.cfg.clone();
    let mut rng = derive(cfg.seed, &[hash_str("saveload"), case]);
    let prop: &'static str = match cfg.prop.as_str() {
        "C14" => "C14",
        "C15" => "C15",
        _ => {
            if case % 2 == 0 {
                "C14"
            } else {
                "C15"
            }
        }
    };
    let uuid = rng.chance(2, 5);
    names_reset(uuid);
    trace::set_domain(&["C14", "C15"]);
    let mut ev = Ev::default();
    let res = match (prop, uuid) {
        ("C14", false) => c14_case::<SM>(&mut rng, &mut ev),
        ("C14", true) => c14_case::<UuidMarker>(&mut rng, &mut ev),
        (_, false) => c15_case::<SM>(&mut rng, cfg.ops, &mut ev),
        (_, true) => c15_case::<UuidMarker>(&mut rng, cfg.ops, &mut ev),
    };
    rep.cases_run += 1;
    for (k, v) in &ev.c {
        rep.bump(k, *v);
    }
    for (k, v) in &ev.mx {
        rep.max(k, *v);
    }
    rep.bump("ops_total", ev.hist.len() as u64);
    for h in &ev.hist {
        rep.op(h.split(|c| c == '(' || c == ' ').nth(1).unwrap_or("?"));
    }
    match res {
        Ok(out) => {
            if out.nontrivial {
                rep.distinct(ev.sig.0);
                if rep.samples.len() < 2 {
                    let h: Vec<&String> = ev.hist.iter().take(40).collect();
                    rep.sample(serde_json::json!({"case": case, "property": prop, "marker": if uuid { "uuid" } else { "simple" }, "ops": h}));
                }
            }
        }
        Err((p, kind, msg)) => {
            rep.violation(p, case, ev.hist.len(), msg, format!("{}:{}", p, kind), &ev.hist);
        }
    }
}

pub fn run(rep: &mut Report) {
    for case in rep.cfg.my_cases() {
        if rep.full() {
            break;
        }
        crate::report::guarded(rep, case, |rep| run_case(rep, case));
    }
}
