//! Run configuration, counters, violations and the JSON result file.

use std::collections::{BTreeMap, BTreeSet};

use serde_json::{json, Value};

#[derive(Clone, Debug)]
pub struct Cfg {
    pub engine: String,
    pub prop: String,
    pub seed: u64,
    pub cases: u64,
    pub ops: usize,
    pub shard: u64,
    pub nshards: u64,
    pub out: Option<String>,
    pub only_case: Option<u64>,
    pub replay_dir: String,
    pub flavour: String,
    pub extra: BTreeMap<String, String>,
}

impl Cfg {
    pub fn from_args(args: &[String]) -> Cfg {
        let mut c = Cfg {
            engine: String::new(),
            prop: String::new(),
            seed: 1,
            cases: 100,
            ops: 60,
            shard: 0,
            nshards: 1,
            out: None,
            only_case: None,
            replay_dir: "/verif/replays".into(),
            flavour: "dbg".into(),
            extra: BTreeMap::new(),
        };
        let mut i = 0;
        if !args.is_empty() && !args[0].starts_with("--") {
            c.engine = args[0].clone();
            i = 1;
        }
        while i < args.len() {
            let k = args[i].trim_start_matches("--").to_string();
            let v = args.get(i + 1).cloned().unwrap_or_default();
            match k.as_str() {
                "engine" => c.engine = v,
                "prop" => c.prop = v,
                "seed" => c.seed = v.parse().expect("seed"),
                "cases" => c.cases = v.parse().expect("cases"),
                "ops" => c.ops = v.parse().expect("ops"),
                "shard" => c.shard = v.parse().expect("shard"),
                "nshards" => c.nshards = v.parse().expect("nshards"),
                "out" => c.out = Some(v),
                "only-case" => c.only_case = Some(v.parse().expect("only-case")),
                "replay-dir" => c.replay_dir = v,
                "flavour" => c.flavour = v,
                _ => {
                    c.extra.insert(k, v);
                }
            }
            i += 2;
        }
        c
    }
    pub fn extra_u64(&self, k: &str, default: u64) -> u64 {
        self.extra.get(k).and_then(|v| v.parse().ok()).unwrap_or(default)
    }
    pub fn extra_str(&self, k: &str, default: &str) -> String {
        self.extra.get(k).cloned().unwrap_or_else(|| default.to_string())
    }
    /// Iterate the case numbers this shard is responsible for.
    pub fn my_cases(&self) -> Vec<u64> {
        if let Some(c) = self.only_case {
            return vec![c];
        }
        (0..self.cases).filter(|c| c % self.nshards == self.shard).collect()
    }
}

#[derive(Clone, Debug)]
pub struct Violation {
    pub prop: String,
    pub case: u64,
    pub step: usize,
    pub msg: String,
    pub signature: String,
    pub replay: String,
}

pub struct Report {
    pub cfg: Cfg,
    pub cases_run: u64,
    pub ops: BTreeMap<String, u64>,
    pub counters: BTreeMap<String, u64>,
    pub distinct: BTreeSet<u64>,
    pub samples: Vec<Value>,
    pub violations: Vec<Violation>,
    pub foreign: Vec<Violation>,
    pub inconclusive: Vec<String>,
    pub notes: Vec<String>,
}

pub const MAX_VIOLATIONS: usize = 4;
pub const MAX_DISTINCT: usize = 20000;

impl Report {
    pub fn new(cfg: Cfg) -> Report {
        Report {
            cfg,
            cases_run: 0,
            ops: BTreeMap::new(),
            counters: BTreeMap::new(),
            distinct: BTreeSet::new(),
            samples: Vec::new(),
            violations: Vec::new(),
            foreign: Vec::new(),
            inconclusive: Vec::new(),
            notes: Vec::new(),
        }
    }
    pub fn op(&mut self, kind: &str) {
        *self.ops.entry(kind.to_string()).or_insert(0) += 1;
    }
    pub fn bump(&mut self, name: &str, n: u64) {
        *self.counters.entry(name.to_string()).or_insert(0) += n;
    }
    pub fn max(&mut self, name: &str, v: u64) {
        let e = self.counters.entry(name.to_string()).or_insert(0);
        if v > *e {
            *e = v;
        }
    }
    pub fn distinct(&mut self, sig: u64) {
        if self.distinct.len() < MAX_DISTINCT {
            self.distinct.insert(sig);
        }
    }
    pub fn sample(&mut self, v: Value) {
        if self.samples.len() < 3 {
            self.samples.push(v);
        }
    }
    pub fn full(&self) -> bool {
        self.violations.len() >= MAX_VIOLATIONS
    }

    /// Record a violation of `prop` (writes the replay file and prints the
    /// VIOLATION line if it concerns the property being checked; otherwise it
    /// is kept as a foreign divergence).
    pub fn violation(
        &mut self,
        prop: &str,
        case: u64,
        step: usize,
        msg: String,
        signature: String,
        history: &[String],
    ) {
        let own = prop == self.cfg.prop || self.cfg.prop.is_empty() || self.cfg.prop == "ALL";
        let replay = format!(
            "{}/{}-{}-{}-s{}-c{}.json",
            self.cfg.replay_dir, prop, self.cfg.engine, self.cfg.flavour, self.cfg.seed, case
        );
        let v = Violation {
            prop: prop.to_string(),
            case,
            step,
            msg: msg.clone(),
            signature,
            replay: replay.clone(),
        };
        if own {
            if self.violations.len() < MAX_VIOLATIONS {
                let _ = std::fs::create_dir_all(&self.cfg.replay_dir);
                let tail: Vec<&String> = history.iter().collect();
                let doc = json!({
                    "property": prop,
                    "engine": self.cfg.engine,
                    "flavour": self.cfg.flavour,
                    "seed": self.cfg.seed,
                    "case": case,
                    "cases": self.cfg.cases,
                    "ops": self.cfg.ops,
                    "extra": self.cfg.extra,
                    "failing_step": step,
                    "message": msg,
                    "signature": v.signature,
                    "history": tail,
                });
                let _ = std::fs::write(&replay, serde_json::to_string_pretty(&doc).unwrap());
                eprintln!("violation[{}] case {} step {}: {}", prop, case, step, msg);
                self.violations.push(v);
            }
        } else if self.foreign.len() < 20 {
            self.foreign.push(v);
        }
    }

    pub fn to_json(&self) -> Value {
        let viol = |v: &Violation| {
            json!({"prop": v.prop, "case": v.case, "step": v.step, "msg": v.msg,
                   "signature": v.signature, "replay": v.replay})
        };
        json!({
            "engine": self.cfg.engine,
            "prop": self.cfg.prop,
            "flavour": self.cfg.flavour,
            "seed": self.cfg.seed,
            "shard": self.cfg.shard,
            "nshards": self.cfg.nshards,
            "cases_run": self.cases_run,
            "ops": self.ops,
            "counters": self.counters,
            "distinct": self.distinct.iter().map(|h| format!("{:016x}", h)).collect::<Vec<_>>(),
            "samples": self.samples,
            "violations": self.violations.iter().map(viol).collect::<Vec<_>>(),
            "foreign": self.foreign.iter().map(viol).collect::<Vec<_>>(),
            "inconclusive": self.inconclusive,
            "notes": self.notes,
        })
    }

    pub fn finish(&self) -> i32 {
        let doc = self.to_json();
        let text = serde_json::to_string(&doc).unwrap();
        match &self.cfg.out {
            Some(p) => {
                std::fs::write(p, &text).expect("write result file");
            }
            None => println!("{}", text),
        }
        if !self.violations.is_empty() {
            1
        } else {
            0
        }
    }
}

/// Per-case trace kept outside the engine state so it survives a panic.
pub mod trace {
    use std::sync::Mutex;
    static HIST: Mutex<Vec<String>> = Mutex::new(Vec::new());
    static CTX: Mutex<&'static str> = Mutex::new("");
    static DOMAIN: Mutex<&'static [&'static str]> = Mutex::new(&[]);
    /// Properties whose quantified operations include the one in progress: a
    /// panic escaping from it is attributed to the checked property if listed.
    pub fn set_domain(d: &'static [&'static str]) {
        *DOMAIN.lock().unwrap_or_else(|e| e.into_inner()) = d;
    }
    pub fn domain() -> &'static [&'static str] {
        *DOMAIN.lock().unwrap_or_else(|e| e.into_inner())
    }
    pub fn reset() {
        HIST.lock().unwrap_or_else(|e| e.into_inner()).clear();
        *CTX.lock().unwrap_or_else(|e| e.into_inner()) = "";
        *DOMAIN.lock().unwrap_or_else(|e| e.into_inner()) = &[];
    }
    pub fn push(s: &str) {
        HIST.lock().unwrap_or_else(|e| e.into_inner()).push(s.to_string());
    }
    pub fn set_ctx(p: &'static str) {
        *CTX.lock().unwrap_or_else(|e| e.into_inner()) = p;
    }
    pub fn ctx() -> &'static str {
        *CTX.lock().unwrap_or_else(|e| e.into_inner())
    }
    pub fn take() -> Vec<String> {
        std::mem::take(&mut *HIST.lock().unwrap_or_else(|e| e.into_inner()))
    }
}

/// Run one case; a panic escaping from the library under test (or from the
/// harness) is reported as a violation of the property whose operation was in
/// progress, with the trace recorded so far.
pub fn guarded(rep: &mut Report, case: u64, f: impl FnOnce(&mut Report)) {
    trace::reset();
    let r = std::panic::catch_unwind(std::panic::AssertUnwindSafe(|| f(rep)));
    if let Err(e) = r {
        let msg = if let Some(s) = e.downcast_ref::<String>() {
            s.clone()
        } else if let Some(s) = e.downcast_ref::<&str>() {
            s.to_string()
        } else {
            "<non-string panic>".to_string()
        };
        let hist = trace::take();
        let ctx = trace::ctx();
        let dom = trace::domain();
        let prop = if ctx.is_empty() || dom.contains(&rep.cfg.prop.as_str()) {
            rep.cfg.prop.clone()
        } else {
            ctx.to_string()
        };
        rep.cases_run += 1;
        rep.violation(
            &prop,
            case,
            hist.len(),
            format!("operation panicked: {}", msg),
            format!("{}:panic", prop),
            &hist,
        );
    }
}

/// C20 over another engine's histories: run the case twice (the second time on a fresh thread) and
/// require identical traces; the trace hash goes to `hashes` for the driver's cross-process comparison.
pub fn guarded_det(
    rep: &mut Report,
    case: u64,
    hashes: &mut std::collections::BTreeMap<u64, u64>,
    f: &(dyn Fn(&mut Report) + Sync),
) {
    crate::ledger::reset_ids();
    guarded(rep, case, |r| f(r));
    let a = trace::take();
    let cfg = rep.cfg.clone();
    let b: Vec<String> = std::thread::scope(|s| {
        s.spawn(|| {
            crate::ledger::reset_ids();
            let mut scratch = Report::new(cfg);
            scratch.cfg.replay_dir = "/dev/null/none".into();
            guarded(&mut scratch, case, |r| f(r));
            trace::take()
        })
        .join()
        .unwrap_or_default()
    });
    let mut h = 0x9E37u64;
    for l in &a {
        h = crate::rng::mix(h ^ crate::rng::hash_str(l));
    }
    hashes.insert(case, h);
    rep.bump("transcript_lines", a.len() as u64);
    if a != b {
        let i = a.iter().zip(b.iter()).position(|(x, y)| x != y).unwrap_or(a.len().min(b.len()));
        let msg = format!(
            "the same history produced different transcripts when replayed in this process (second run on another thread): first difference at line {}: `{}` vs `{}`",
            i,
            a.get(i).map(|s| s.chars().take(240).collect::<String>()).unwrap_or_default(),
            b.get(i).map(|s| s.chars().take(240).collect::<String>()).unwrap_or_default()
        );
        rep.violation("C20", case, i, msg, "C20:replay transcript mismatch".into(), &a);
    } else if a.len() >= 10 {
        rep.distinct(h);
    }
}

pub fn push_transcripts(rep: &mut Report, hashes: &std::collections::BTreeMap<u64, u64>) {
    let doc: std::collections::BTreeMap<String, String> = hashes.iter().map(|(c, h)| (c.to_string(), format!("{:016x}", h))).collect();
    rep.notes.push(format!("transcripts={}", serde_json::to_string(&doc).unwrap()));
}
