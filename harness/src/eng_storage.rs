//! Engine `storage`: one component storage of each built-in kind / wrapper
//! combination driven through arbitrary operation sequences and compared with a
//! plain map (C04), with the destruction ledger (C08), with stale handles (C03),
//! with the expected change-tracking event stream (C12) and through restricted
//! views (C13).

use std::collections::{BTreeMap, BTreeSet};

use specs::prelude::*;
use specs::storage::{AccessMut, ComponentEvent, StorageEntry};
use specs::{LendJoin, ReaderId};

use crate::access::{judge, ExpEv, Upd};
use crate::comps::*;
use crate::ledger::{self, Snap, ZST_SNAP};
use crate::model::Fail;
use crate::report::{trace, Report};
use crate::rng::{derive, hash_str, Rng, Sig};

type R = Result<(), Fail>;

struct S<C: Comp> {
    world: Option<World>,
    live: Vec<Entity>,
    pending_delete: Vec<Entity>,
    dead: Vec<Entity>,
    model: BTreeMap<Entity, Snap>,
    reader: Option<ReaderId<ComponentEvent>>,
    emission: bool,
    replayed: BTreeSet<u32>,
    replay_valid: bool,
    hist: Vec<String>,
    rng: Rng,
    sig: Sig,
    payload: u64,
    prop: String,
    // coverage
    exits: [u64; 4],
    remove_middle_reinsert: u64,
    last_removed_middle: bool,
    slices_compared: u64,
    structural_checks: u64,
    events_compared: u64,
    removed_via: BTreeSet<&'static str>,
    readonly_silent_checks: u64,
    restricted_partial_mut: u64,
    get_other_mut_stale: u64,
    unmerged_created: u64,
    unmerged: Vec<Entity>,
    get_other_unmerged: u64,
    stale_probes: BTreeSet<Path>,
    stale_occupied: u64,
    modified_multiplicity_max: u64,
    boundary_indices: u64,
    _pd: std::marker::PhantomData<fn() -> C>,
}

fn tr(v: &[u32]) -> Vec<u32> {
    v.iter().cloned().take(16).collect()
}

impl<C: Comp> S<C>
where
    C::Storage: Default,
{
    fn w(&self) -> &World {
        self.world.as_ref().unwrap()
    }
    fn log(&mut self, s: String) {
        self.sig.push(hash_str(s.split('(').next().unwrap_or("")));
        trace::push(&s);
        self.hist.push(s);
    }
    fn p(&mut self) -> u64 {
        self.payload += 1;
        self.payload
    }
    fn idx_model(&self) -> BTreeMap<u32, Snap> {
        self.model.iter().map(|(e, s)| (e.id(), *s)).collect()
    }
    fn not_dead(&self, h: Entity) -> bool {
        self.live.contains(&h)
    }
    fn pick_live(&mut self) -> Option<Entity> {
        if self.live.is_empty() {
            None
        } else {
            Some(self.live[self.rng.below(self.live.len())])
        }
    }
    fn pick_member(&mut self) -> Option<Entity> {
        if self.model.is_empty() {
            return None;
        }
        let k = self.rng.below(self.model.len());
        self.model.keys().nth(k).cloned()
    }
    fn pick_dead(&mut self) -> Option<Entity> {
        if self.dead.is_empty() {
            return None;
        }
        // prefer stale handles whose index is occupied again
        let occ: Vec<Entity> = self.dead.iter().filter(|d| self.live.iter().any(|l| l.id() == d.id())).cloned().collect();
        if !occ.is_empty() && self.rng.chance(3, 4) {
            return Some(occ[self.rng.below(occ.len())]);
        }
        Some(self.dead[self.rng.below(self.dead.len())])
    }
    fn pick_target(&mut self, dead_pct: u32) -> Option<Entity> {
        if self.rng.chance(dead_pct, 100) {
            if let Some(d) = self.pick_dead() {
                return Some(d);
            }
        }
        if self.rng.chance(1, 2) {
            if let Some(m) = self.pick_member() {
                return Some(m);
            }
        }
        self.pick_live()
    }

    // ----- events ---------------------------------------------------------------

    fn check_events(&mut self, exp: ExpEv, prop: &'static str, what: &str) -> R {
        let reader = match self.reader.as_mut() {
            Some(r) => r,
            None => return Ok(()),
        };
        let evs = {
            let s = self.world.as_ref().unwrap().read_storage::<C>();
            C::read_events(&s, reader)
        };
        self.events_compared += 1;
        if !self.emission {
            if !evs.is_empty() {
                return Err((prop, format!("{}: events {:?} were emitted while event emission is switched off", what, evs)));
            }
            return Ok(());
        }
        let mut ir = Vec::new();
        let mut modc: BTreeMap<u32, u64> = BTreeMap::new();
        for e in &evs {
            match e {
                ComponentEvent::Inserted(i) => {
                    ir.push((true, *i));
                    self.replayed.insert(*i);
                }
                ComponentEvent::Removed(i) => {
                    ir.push((false, *i));
                    self.replayed.remove(i);
                }
                ComponentEvent::Modified(i) => *modc.entry(*i).or_insert(0) += 1,
            }
        }
        if ir != exp.ir {
            return Err((
                prop,
                format!(
                    "{}: insertion/removal events {:?} but expected {:?} (true = Inserted, false = Removed)",
                    what,
                    ir.iter().take(12).collect::<Vec<_>>(),
                    exp.ir.iter().take(12).collect::<Vec<_>>()
                ),
            ));
        }
        let got: BTreeSet<u32> = modc.keys().cloned().collect();
        let want: BTreeSet<u32> = exp.modified.iter().cloned().collect();
        if got != want {
            return Err((
                prop,
                format!(
                    "{}: Modified events for indices {:?} but the components accessed mutably were {:?}",
                    what,
                    got.iter().take(12).collect::<Vec<_>>(),
                    want.iter().take(12).collect::<Vec<_>>()
                ),
            ));
        }
        if want.is_empty() && exp.ir.is_empty() {
            self.readonly_silent_checks += 1;
        }
        for v in modc.values() {
            self.modified_multiplicity_max = self.modified_multiplicity_max.max(*v);
        }
        Ok(())
    }

    // ----- operations -----------------------------------------------------------

    fn op_access(&mut self, dead_pct: u32) -> R {
        let h = match self.pick_target(dead_pct) {
            Some(h) => h,
            None => return Ok(()),
        };
        let path = *self.rng.pick(&ALL_PATHS);
        let p = self.p();
        let alive = self.not_dead(h);
        trace::set_ctx(if alive { "C04" } else { "C03" });
        let drv = Drv::<C>(std::marker::PhantomData);
        let out = drv.access(self.w(), h, path, p);
        self.log(format!("access({:?}, {:?}) -> {:?}", h, path, out));
        let m = self.model.get(&h).cloned();
        let middle = m.is_some() && self.model.keys().next_back() != Some(&h);
        let restricted_path = matches!(path, Path::RestrictGetOther | Path::RestrictGetOtherMut | Path::RestrictReadGetOther);
        let v = match judge(C::NAME, C::IS_ZST, C::TRACKED, alive, self.model.is_empty(), m, h, path, p, out) {
            Ok(v) => v,
            Err((p0, msg)) => {
                // a restricted view's other-entity lookup is C13's subject as well as C03's / C04's
                let p1 = if restricted_path && self.prop == "C13" { "C13" } else { p0 };
                return Err((p1, msg));
            }
        };
        if !alive {
            self.stale_probes.insert(path);
            if self.live.iter().any(|l| l.id() == h.id()) {
                self.stale_occupied += 1;
                if path == Path::RestrictGetOtherMut {
                    self.get_other_mut_stale += 1;
                }
            }
        }
        match v.upd {
            Upd::Keep => {}
            Upd::Set(s) => {
                if m.is_none() && self.last_removed_middle {
                    self.remove_middle_reinsert += 1;
                    self.last_removed_middle = false;
                }
                self.model.insert(h, s);
            }
            Upd::Remove => {
                self.model.remove(&h);
                self.last_removed_middle = middle;
                self.removed_via.insert(if path == Path::EntryRemove { "entry" } else { "remove" });
            }
        }
        if v.returned {
            self.exits[0] += 1;
        }
        let prop = if matches!(path, Path::RestrictGetOther | Path::RestrictGetOtherMut | Path::RestrictReadGetOther) && self.prop == "C13" {
            "C13"
        } else {
            "C12"
        };
        self.check_events(v.ev, prop, &format!("{:?}", path))
    }

    fn op_join_shared(&mut self) -> R {
        trace::set_ctx("C04");
        let got: Vec<(Entity, Snap)> = {
            let s = self.w().read_storage::<C>();
            let e = self.w().entities();
            (&e, &s).join().map(|(e, c)| (e, c.observe())).collect()
        };
        self.log(format!("join_shared() -> {} items", got.len()));
        let want: Vec<(Entity, Snap)> = {
            let mut v: Vec<(Entity, Snap)> = self.model.iter().map(|(e, s)| (*e, *s)).collect();
            v.sort_by_key(|x| x.0.id());
            v
        };
        if got != want {
            return Err(("C04", format!("(&entities, &storage).join() yielded {:?} but the map holds {:?}", got.iter().take(8).collect::<Vec<_>>(), want.iter().take(8).collect::<Vec<_>>())));
        }
        self.check_events(ExpEv::default(), "C12", "shared join")
    }

    /// Mutable iteration with writes to a seeded subset. `lend`: lending join
    /// (all kinds) or plain join (kinds with shared mutable access).
    fn op_join_mut(&mut self, lend: bool) -> R {
        trace::set_ctx("C04");
        let write_pct = self.rng.range(0, 100) as u32;
        let mut decide = self.rng.clone();
        self.rng.next();
        let mut base = self.payload;
        let mut visited: Vec<(u32, Snap, bool)> = Vec::new();
        let used_lend;
        {
            let mut s = self.world.as_ref().unwrap().write_storage::<C>();
            if lend || C::TRACKED == 2 {
                used_lend = true;
                let mut j = (&mut s).lend_join();
                // lending join yields in mask order; pair with ids through a parallel mask walk
                let ids: Vec<u32> = self.model.keys().map(|e| e.id()).collect::<BTreeSet<_>>().into_iter().collect();
                let mut k = 0;
                while let Some(mut c) = j.next() {
                    let id = ids.get(k).cloned().unwrap_or(u32::MAX);
                    k += 1;
                    let wr = decide.chance(write_pct, 100);
                    if wr {
                        base += 1;
                        c.access_mut().set_payload(base);
                    }
                    visited.push((id, c.observe(), wr));
                }
            } else {
                used_lend = false;
                let ents = self.world.as_ref().unwrap().entities();
                visited = C::join_mut_run(&ents, &mut s, &mut decide, write_pct, &mut base).expect("shared mutable join");
            }
        }
        self.payload = base;
        self.log(format!("join_mut(lend={}, write%={}) -> {} items", used_lend, write_pct, visited.len()));
        let want: Vec<u32> = self.idx_model().keys().cloned().collect();
        let got: Vec<u32> = visited.iter().map(|x| x.0).collect();
        if got != want {
            return Err(("C04", format!("mutable join visited indices {:?} but the members are {:?}", tr(&got), tr(&want))));
        }
        let mut ev = ExpEv::default();
        let by_idx: BTreeMap<u32, Entity> = self.model.keys().map(|e| (e.id(), *e)).collect();
        for (id, snap, wr) in visited {
            let e = by_idx[&id];
            let old = self.model[&e];
            let exp = if wr && !C::IS_ZST { Snap { id: old.id, payload: snap.payload } } else { old };
            if snap.id != old.id || (!wr && snap != old) {
                return Err(("C04", format!("mutable join item at index {} is {:?} but the map holds {:?}", id, snap, old)));
            }
            self.model.insert(e, exp);
            // FlaggedStorage flags on handing out, DerefFlaggedStorage on mutable deref
            if C::TRACKED == 1 || (C::TRACKED == 2 && wr) {
                ev.modified.push(id);
            }
        }
        self.check_events(ev, "C12", "mutable join")
    }

    fn op_restricted(&mut self) -> R {
        trace::set_ctx("C13");
        let variant = self.rng.below(4);
        let mut decide = self.rng.clone();
        self.rng.next();
        let mut base = self.payload;
        let get_pct = self.rng.range(0, 100) as u32;
        let mut_pct = self.rng.range(0, 100) as u32;
        // other-entity lookups prepared up front (live with / without component, dead, stale)
        let mut others: Vec<Entity> = Vec::new();
        for _ in 0..3 {
            if let Some(h) = self.pick_target(40) {
                others.push(h);
            }
        }
        let mut log: Vec<REv> = Vec::new();
        let name;
        {
            let world = self.world.as_ref().unwrap();
            match variant {
                0 => {
                    name = "(&restrict()).join";
                    let s = world.read_storage::<C>();
                    let r = s.restrict();
                    for (i, item) in (&r).join().enumerate() {
                        log.push(REv::Item(i));
                        if decide.chance(get_pct, 100) {
                            log.push(REv::Get(i, item.get().observe()));
                        }
                        for h in &others {
                            if decide.chance(1, 6) {
                                log.push(REv::Other(*h, false, item.get_other(*h).map(|c| c.observe()), 0));
                            }
                        }
                    }
                }
                1 => {
                    name = "(&restrict()).lend_join";
                    let s = world.read_storage::<C>();
                    let r = s.restrict();
                    let mut j = (&r).lend_join();
                    let mut i = 0;
                    while let Some(item) = j.next() {
                        log.push(REv::Item(i));
                        if decide.chance(get_pct, 100) {
                            log.push(REv::Get(i, item.get().observe()));
                        }
                        for h in &others {
                            if decide.chance(1, 6) {
                                log.push(REv::Other(*h, false, item.get_other(*h).map(|c| c.observe()), 0));
                            }
                        }
                        i += 1;
                    }
                }
                2 if C::TRACKED != 2 => {
                    name = "(&mut restrict_mut()).join";
                    let mut s = world.write_storage::<C>();
                    log = C::restrict_mut_join(&mut s, &mut decide, get_pct, mut_pct, &mut base).expect("shared restricted join");
                }
                _ => {
                    name = "(&mut restrict_mut()).lend_join";
                    let mut s = world.write_storage::<C>();
                    let mut r = s.restrict_mut();
                    let mut j = (&mut r).lend_join();
                    let mut i = 0;
                    while let Some(mut item) = j.next() {
                        log.push(REv::Item(i));
                        if decide.chance(get_pct, 100) {
                            log.push(REv::Get(i, item.get().observe()));
                        }
                        if decide.chance(mut_pct, 100) {
                            if decide.chance(1, 5) {
                                let a = item.get_mut();
                                log.push(REv::MutNoWrite(i, a.observe()));
                            } else {
                                base += 1;
                                let mut a = item.get_mut();
                                a.access_mut().set_payload(base);
                                log.push(REv::Mut(i, a.observe()));
                            }
                        }
                        for h in &others {
                            if decide.chance(1, 6) {
                                if decide.chance(1, 2) {
                                    log.push(REv::Other(*h, false, item.get_other(*h).map(|c| c.observe()), 0));
                                } else {
                                    base += 1;
                                    let r = item.get_other_mut(*h).map(|mut c| {
                                        c.access_mut().set_payload(base);
                                        c.observe()
                                    });
                                    log.push(REv::Other(*h, true, r, base));
                                }
                            }
                        }
                        i += 1;
                    }
                }
            }
        }
        self.payload = base;
        let members: Vec<Entity> = {
            let mut v: Vec<Entity> = self.model.keys().cloned().collect();
            v.sort_by_key(|e| e.id());
            v
        };
        let n_items = log.iter().filter(|e| matches!(e, REv::Item(_))).count();
        self.log(format!("restricted({}) -> {} items, {} records", name, n_items, log.len()));
        if n_items != members.len() {
            return Err(("C13", format!("{} visited {} items but the storage has {} members", name, n_items, members.len())));
        }
        // replay the ordered record against the model
        let mut modified: BTreeSet<u32> = BTreeSet::new();
        let mut fetched_mut = 0usize;
        for ev in log {
            match ev {
                REv::Item(_) => {}
                REv::Get(i, g) => {
                    let e = members[i];
                    let cur = self.model[&e];
                    if g != cur {
                        return Err(("C13", format!("{}: the item for index {} returned {:?} from get() but a direct lookup gives {:?}", name, e.id(), g, cur)));
                    }
                }
                REv::Mut(i, ms) => {
                    let e = members[i];
                    let cur = self.model[&e];
                    let exp = if C::IS_ZST { ZST_SNAP } else { Snap { id: cur.id, payload: ms.payload } };
                    if ms != exp {
                        return Err(("C13", format!("{}: get_mut() on the item for index {} exposed {:?} but that entity's component is {:?}", name, e.id(), ms, cur)));
                    }
                    self.model.insert(e, exp);
                    fetched_mut += 1;
                    if C::TRACKED != 0 {
                        modified.insert(e.id());
                    }
                }
                REv::MutNoWrite(i, ms) => {
                    let e = members[i];
                    let cur = self.model[&e];
                    if ms != cur {
                        return Err(("C13", format!("{}: get_mut() on the item for index {} exposed {:?} but that entity's component is {:?}", name, e.id(), ms, cur)));
                    }
                    fetched_mut += 1;
                    if C::TRACKED == 1 {
                        modified.insert(e.id());
                    }
                }
                REv::Other(h, mutable, res, wp) => {
                    let alive = self.not_dead(h);
                    let cur = if alive { self.model.get(&h).cloned() } else { None };
                    let stale_occ = !alive && self.live.iter().any(|l| l.id() == h.id());
                    if stale_occ && mutable {
                        self.get_other_mut_stale += 1;
                    }
                    if cur.is_some() && self.unmerged.contains(&h) {
                        self.get_other_unmerged += 1;
                    }
                    let suffix = if mutable { "_mut" } else { "" };
                    match (cur, res) {
                        (None, None) => {}
                        (Some(c), Some(r)) => {
                            let exp = if mutable && !C::IS_ZST { Snap { id: c.id, payload: wp } } else { c };
                            if r != exp {
                                return Err(("C13", format!("{}: get_other{}({:?}) returned {:?} but that entity's component is {:?}", name, suffix, h, r, c)));
                            }
                            if mutable {
                                self.model.insert(h, exp);
                                if C::TRACKED != 0 {
                                    modified.insert(h.id());
                                }
                            }
                        }
                        (None, Some(r)) => {
                            return Err((
                                if alive || self.prop == "C13" { "C13" } else { "C03" },
                                format!("{}: get_other{}({:?}) returned {:?} although the entity is {}", name, suffix, h, r, if alive { "alive without this component" } else { "dead" }),
                            ));
                        }
                        (Some(c), None) => {
                            return Err(("C13", format!("{}: get_other{}({:?}) returned nothing although the entity holds {:?}", name, suffix, h, c)));
                        }
                    }
                }
            }
        }
        if fetched_mut > 0 && fetched_mut < members.len() && C::TRACKED != 0 {
            self.restricted_partial_mut += 1;
        }
        let ev = ExpEv { ir: vec![], modified: modified.into_iter().collect() };
        self.check_events(ev, "C13", name)?;
        self.full_check()
    }

    fn op_entries(&mut self) -> R {
        trace::set_ctx("C04");
        let mut base = self.payload;
        let mut decide = self.rng.clone();
        self.rng.next();
        // (entity, was occupied, action, resulting snap)
        let mut seen: Vec<(Entity, bool, u8, Option<Snap>)> = Vec::new();
        {
            let world = self.world.as_ref().unwrap();
            let ents = world.entities();
            let mut s = world.write_storage::<C>();
            let mut j = (&ents, s.entries()).lend_join();
            while let Some((e, entry)) = j.next() {
                match entry {
                    StorageEntry::Occupied(mut o) => {
                        let act = decide.below(4) as u8;
                        let snap = match act {
                            0 => Some(o.get().observe()),
                            1 => {
                                base += 1;
                                let mut a = o.get_mut();
                                a.access_mut().set_payload(base);
                                Some(a.observe())
                            }
                            2 => {
                                base += 1;
                                let (c, snap) = C::make(base);
                                c.given();
                                let old = o.insert(c);
                                old.returned();
                                let _ = old.snap();
                                Some(snap)
                            }
                            _ => None,
                        };
                        seen.push((e, true, act, snap));
                    }
                    StorageEntry::Vacant(v) => {
                        let act = if decide.chance(1, 4) { 1 } else { 0 };
                        let snap = if act == 1 {
                            base += 1;
                            let (c, snap) = C::make(base);
                            c.given();
                            let a = v.insert(c);
                            let _ = a.observe();
                            Some(snap)
                        } else {
                            None
                        };
                        seen.push((e, false, act, snap));
                    }
                }
            }
        }
        self.payload = base;
        self.log(format!("entries() -> {} entities", seen.len()));
        let mut want: Vec<Entity> = self.live.clone();
        want.sort_by_key(|e| e.id());
        let got: Vec<Entity> = seen.iter().map(|x| x.0).collect();
        if got != want {
            return Err(("C04", format!("(&entities, storage.entries()).lend_join() visited {:?}, expected every live entity {:?}", got.iter().take(8).collect::<Vec<_>>(), want.iter().take(8).collect::<Vec<_>>())));
        }
        let mut ev = ExpEv::default();
        for (e, occ, act, snap) in seen {
            let m = self.model.get(&e).cloned();
            if occ != m.is_some() {
                return Err(("C04", format!("entries(): entity {:?} reported {} but the map says {}", e, if occ { "occupied" } else { "vacant" }, if m.is_some() { "occupied" } else { "vacant" })));
            }
            match (occ, act, snap, m) {
                (true, 0, Some(s), Some(m)) => {
                    if s != m {
                        return Err(("C04", format!("entries(): occupied entry of {:?} holds {:?}, expected {:?}", e, s, m)));
                    }
                }
                (true, 1, Some(s), Some(m)) => {
                    let exp = if C::IS_ZST { ZST_SNAP } else { Snap { id: m.id, payload: s.payload } };
                    if s != exp {
                        return Err(("C04", format!("entries(): get_mut of {:?} exposed {:?}, expected {:?}", e, s, m)));
                    }
                    self.model.insert(e, exp);
                    if C::TRACKED != 0 {
                        ev.modified.push(e.id());
                    }
                }
                (true, 2, Some(s), Some(_)) => {
                    self.model.insert(e, s);
                    self.exits[0] += 1;
                    if C::TRACKED != 0 {
                        ev.modified.push(e.id());
                    }
                }
                (false, 1, Some(s), None) => {
                    self.model.insert(e, s);
                    ev.ir.push((true, e.id()));
                    if C::TRACKED == 1 {
                        ev.modified.push(e.id());
                    }
                }
                _ => {}
            }
        }
        self.check_events(ev, "C12", "entries()")
    }

    fn op_drain(&mut self) -> R {
        trace::set_ctx("C04");
        let mode = self.rng.below(3);
        let members: Vec<u32> = self.idx_model().keys().cloned().collect();
        let mut filter = specs::BitSet::new();
        let mut chosen: Vec<u32> = Vec::new();
        let take = if members.is_empty() { 0 } else { self.rng.below(members.len() + 1) };
        match mode {
            0 => chosen = members.clone(),
            1 => {
                for i in &members {
                    if self.rng.chance(1, 2) {
                        filter.add(*i);
                        chosen.push(*i);
                    }
                }
                // also offer indices that are not members: they must simply not match
                filter.add(members.last().cloned().unwrap_or(0) + 1);
            }
            _ => chosen = members.iter().cloned().take(take).collect(),
        }
        let drained: Vec<(u32, Snap)> = {
            let world = self.world.as_ref().unwrap();
            let mut s = world.write_storage::<C>();
            let v: Vec<(u32, C)> = match mode {
                0 => (s.mask().clone(), s.drain()).join().collect(),
                1 => (&filter, s.drain()).join().collect(),
                _ => (s.mask().clone(), s.drain()).join().take(take).collect(),
            };
            v.into_iter()
                .map(|(i, c)| {
                    c.returned();
                    (i, c.snap())
                })
                .collect()
        };
        self.log(format!("drain(mode={}) -> {} values", mode, drained.len()));
        let by_idx: BTreeMap<u32, Entity> = self.model.keys().map(|e| (e.id(), *e)).collect();
        let got: Vec<u32> = drained.iter().map(|x| x.0).collect();
        if got != chosen {
            return Err(("C04", format!("drain yielded indices {:?}, expected {:?}", tr(&got), tr(&chosen))));
        }
        let mut ev = ExpEv::default();
        for (i, s) in drained {
            let e = by_idx[&i];
            let m = self.model.remove(&e).unwrap();
            if s != m {
                return Err(("C04", format!("drain returned {:?} for index {}, expected {:?}", s, i, m)));
            }
            self.exits[0] += 1;
            ev.ir.push((false, i));
            self.removed_via.insert("drain");
        }
        self.check_events(ev, "C12", "drain")
    }

    fn op_clear(&mut self) -> R {
        trace::set_ctx("C04");
        self.world.as_ref().unwrap().write_storage::<C>().clear();
        self.log("clear()".into());
        let old: Vec<Snap> = std::mem::take(&mut self.model).into_values().collect();
        for s in old {
            self.exits[2] += 1;
            if s != ZST_SNAP && !ledger::is_dropped(s.id) {
                return Err(("C08", format!("clear(): value {} was not destroyed", s.id)));
            }
        }
        // clear() emits nothing by design; re-baseline the replayed membership
        if let Some(r) = self.reader.as_mut() {
            let s = self.world.as_ref().unwrap().read_storage::<C>();
            let evs = C::read_events(&s, r);
            if !evs.is_empty() {
                // not part of any property: clear is documented to be silent, but emitting is harmless
            }
        }
        self.replayed.clear();
        Ok(())
    }

    fn op_slices(&mut self) -> R {
        trace::set_ctx("C04");
        let exp = self.idx_model();
        if self.rng.chance(1, 3) && !exp.is_empty() && !C::IS_ZST {
            let k = self.rng.below(exp.len());
            let (idx, target) = exp.iter().nth(k).map(|(a, b)| (*a, *b)).unwrap();
            let p = self.p();
            let done = {
                let mut s = self.world.as_ref().unwrap().write_storage::<C>();
                C::slice_write(&mut s, idx, target, p)
            };
            if done {
                self.log(format!("as_mut_slice write(index {})", idx));
                let e = *self.model.keys().find(|e| e.id() == idx).unwrap();
                self.model.insert(e, Snap { id: target.id, payload: p });
            }
        }
        let exp = self.idx_model();
        let s = self.world.as_ref().unwrap().read_storage::<C>();
        match C::slice_check(&s, &exp) {
            Ok(n) => self.slices_compared += n,
            Err(m) => return Err(("C04", format!("{}: {}", C::NAME, m))),
        }
        match C::structural(&s) {
            Ok(true) => self.structural_checks += 1,
            Ok(false) => {}
            Err(m) => return Err(("C04", format!("{} structural self-check: {}", C::NAME, m))),
        }
        Ok(())
    }

    fn op_toggle(&mut self) -> R {
        if self.reader.is_none() {
            return Ok(());
        }
        self.emission = !self.emission;
        {
            let mut s = self.world.as_ref().unwrap().write_storage::<C>();
            C::set_emission(&mut s, self.emission);
        }
        self.log(format!("set_event_emission({})", self.emission));
        if self.emission {
            // re-baseline the replayed membership at the moment emission resumes
            self.replayed = self.idx_model().keys().cloned().collect();
        } else {
            self.replay_valid = true;
        }
        Ok(())
    }

    fn op_churn(&mut self) -> R {
        trace::set_ctx("C05");
        let c = self.rng.below(5);
        let mut ev = ExpEv::default();
        match c {
            0 | 1 => {
                let with = self.rng.chance(1, 2);
                let p = self.p();
                // one creation in three goes through the shared-borrow path and stays un-merged (alive
                // through the raised set only, on a recycled or on a never-used index) until some later
                // maintain(): every access path has to treat such a handle as alive
                let atomic = self.rng.chance(1, 3);
                let (h, snap) = if atomic {
                    let world = self.world.as_ref().unwrap();
                    let ents = world.entities();
                    if with {
                        let (c, snap) = C::make(p);
                        c.given();
                        let mut s = world.write_storage::<C>();
                        (ents.build_entity().with(c, &mut s).build(), Some(snap))
                    } else {
                        (ents.create(), None)
                    }
                } else {
                    let world = self.world.as_mut().unwrap();
                    if with {
                        let (c, snap) = C::make(p);
                        c.given();
                        (world.create_entity().with(c).build(), Some(snap))
                    } else {
                        (world.create_entity().build(), None)
                    }
                };
                if atomic {
                    self.unmerged_created += 1;
                    self.unmerged.push(h);
                }
                self.log(format!("create{}({:?}, with={})", if atomic { "_atomic" } else { "" }, h, with));
                if self.live.contains(&h) || self.dead.contains(&h) {
                    return Err(("C01", format!("creation returned {:?} again", h)));
                }
                self.live.push(h);
                if let Some(s) = snap {
                    self.model.insert(h, s);
                    ev.ir.push((true, h.id()));
                }
            }
            2 | 3 => {
                if let Some(h) = self.pick_live() {
                    let r = self.world.as_mut().unwrap().delete_entity(h);
                    self.log(format!("delete_now({:?})", h));
                    if r.is_err() {
                        return Err(("C02", format!("delete_entity({:?}) failed for a live entity", h)));
                    }
                    self.live.retain(|x| *x != h);
                    self.pending_delete.retain(|x| *x != h);
                    self.dead.push(h);
                    if let Some(s) = self.model.remove(&h) {
                        self.exits[1] += 1;
                        if s != ZST_SNAP && !ledger::is_dropped(s.id) {
                            return Err((if self.prop == "C08" { "C08" } else { "C05" }, format!("component {} of deleted entity {:?} was not destroyed", s.id, h)));
                        }
                        ev.ir.push((false, h.id()));
                        self.removed_via.insert("entity deletion");
                    }
                }
            }
            _ => {
                // deferred deletions of a few entities, then maintain: removals in ascending index order
                let n = self.rng.range(1, 3);
                for _ in 0..n {
                    if let Some(h) = self.pick_live() {
                        if !self.pending_delete.contains(&h) {
                            if self.world.as_ref().unwrap().entities().delete(h).is_err() {
                                return Err(("C02", format!("Entities::delete({:?}) failed for a live entity", h)));
                            }
                            self.pending_delete.push(h);
                        }
                    }
                }
                self.world.as_mut().unwrap().maintain();
                self.unmerged.clear();
                self.log(format!("delete_atomic x{} + maintain()", self.pending_delete.len()));
                let mut pd = std::mem::take(&mut self.pending_delete);
                pd.sort_by_key(|e| e.id());
                for h in pd {
                    self.live.retain(|x| *x != h);
                    self.dead.push(h);
                    if let Some(s) = self.model.remove(&h) {
                        self.exits[1] += 1;
                        if s != ZST_SNAP && !ledger::is_dropped(s.id) {
                            return Err((if self.prop == "C08" { "C08" } else { "C05" }, format!("component {} of deleted entity {:?} was not destroyed", s.id, h)));
                        }
                        ev.ir.push((false, h.id()));
                        self.removed_via.insert("entity deletion");
                    }
                }
            }
        }
        self.check_events(ev, "C12", "entity creation/deletion")
    }

    fn full_check(&mut self) -> R {
        if let Some(m) = ledger::take_faults().into_iter().next() {
            return Err(("C08", m));
        }
        let drv = Drv::<C>(std::marker::PhantomData);
        let got = drv.dump(self.w());
        let want: Vec<(u32, Snap)> = self.idx_model().into_iter().collect();
        if got != want {
            let gi: Vec<u32> = got.iter().map(|x| x.0).collect();
            let wi: Vec<u32> = want.iter().map(|x| x.0).collect();
            let msg = if gi != wi {
                format!("{}: mask {:?} differs from the map's keys {:?} after `{}`", C::NAME, tr(&gi), tr(&wi), self.hist.last().cloned().unwrap_or_default())
            } else {
                let d = got.iter().zip(want.iter()).find(|(a, b)| a != b).unwrap();
                format!("{}: value at index {} is {:?}, the map holds {:?} after `{}`", C::NAME, (d.0).0, (d.0).1, (d.1).1, self.hist.last().cloned().unwrap_or_default())
            };
            return Err(("C04", msg));
        }
        let c = drv.count(self.w());
        let e = drv.is_empty(self.w());
        if c != want.len() || e != want.is_empty() {
            return Err(("C04", format!("{}: count() = {}, is_empty() = {} but the map has {} entries", C::NAME, c, e, want.len())));
        }
        // every key individually through get
        for (h, s) in self.model.iter() {
            let out = drv.access(self.w(), *h, Path::ReadGet, 0);
            if out != Out::Found(*s) {
                return Err(("C04", format!("{}: get({:?}) = {:?}, the map holds {:?}", C::NAME, h, out, s)));
            }
        }
        if C::IS_ZST {
            let (b, d) = ledger::zst_balance();
            if b - d != self.model.len() as u64 {
                return Err(("C08", format!("{}: {} zero-sized components alive by the counters but the storage holds {}", C::NAME, b - d, self.model.len())));
            }
        }
        if self.reader.is_some() && self.emission && self.replay_valid {
            let mask: BTreeSet<u32> = want.iter().map(|x| x.0).collect();
            if self.replayed != mask {
                return Err(("C12", format!("replaying Inserted/Removed events over the membership at registration gives {:?} but the storage's membership is {:?}", self.replayed.iter().take(12).collect::<Vec<_>>(), mask.iter().take(12).collect::<Vec<_>>())));
            }
        }
        Ok(())
    }
}


const BOUNDARY: [u32; 14] = [0, 1, 62, 63, 64, 65, 127, 128, 4094, 4095, 4096, 4097, 8191, 8192];
const FAR: [u32; 8] = [262142, 262143, 262144, 262145, 262207, 262208, 266239, 266240];

fn run_case<C: Comp>(rep: &mut Report, case: u64)
where
    C::Storage: Default,
{
    let cfg = rep.cfg.clone();
    let mut rng = derive(cfg.seed, &[hash_str("storage"), case]);
    ledger::reset();
    let mut world = World::new();
    let how = rng.below(8) as u8;
    Drv::<C>(std::marker::PhantomData).register(&mut world, how);
    // entity layout
    let shape = if cfg.extra_u64("far", 0) == 1 && rng.chance(1, 4) {
        3
    } else if cfg.extra_u64("small", 0) == 1 {
        0
    } else {
        rng.weighted(&[45, 30, 25])
    };
    let (n, keep): (usize, Vec<u32>) = match shape {
        0 => {
            let n = rng.range(1, 40);
            (n, (0..n as u32).collect())
        }
        1 => {
            let n = rng.range(60, 260);
            let mut k: Vec<u32> = (0..n as u32).filter(|_| rng.chance(1, 12)).collect();
            if k.is_empty() {
                k.push((n / 2) as u32);
            }
            (n, k)
        }
        2 => {
            let n = if rng.chance(1, 3) { 8300 } else { 140 };
            let mut k: Vec<u32> = BOUNDARY.iter().cloned().filter(|b| (*b as usize) < n && rng.chance(3, 4)).collect();
            for _ in 0..4 {
                k.push(rng.below(n) as u32);
            }
            k.sort();
            k.dedup();
            (n, k)
        }
        _ => {
            let n = 266300;
            let mut k: Vec<u32> = FAR.iter().chain(BOUNDARY.iter()).cloned().filter(|_| rng.chance(3, 4)).collect();
            k.sort();
            k.dedup();
            (n, k)
        }
    };
    let all: Vec<Entity> = world.create_iter().take(n).collect();
    let keepset: BTreeSet<u32> = keep.iter().cloned().collect();
    let kill: Vec<Entity> = all.iter().filter(|e| !keepset.contains(&e.id())).cloned().collect();
    world.delete_entities(&kill).expect("setup deletion");
    let mut live: Vec<Entity> = all.iter().filter(|e| keepset.contains(&e.id())).cloned().collect();
    let mut dead: Vec<Entity> = kill.iter().cloned().take(24).collect();
    // bump some generations: re-create a few on freed indices
    let extra = rng.below(4).min(kill.len());
    for _ in 0..extra {
        let e = world.create_entity().build();
        live.push(e);
    }
    if rng.chance(1, 3) && live.len() > 2 {
        let h = live.remove(0);
        world.delete_entity(h).unwrap();
        dead.push(h);
        live.push(world.create_entity().build());
    }
    let boundary_indices = live.iter().filter(|e| BOUNDARY.contains(&e.id()) || FAR.contains(&e.id())).count() as u64;
    let mut st = S::<C> {
        world: Some(world),
        live,
        pending_delete: Vec::new(),
        dead,
        model: BTreeMap::new(),
        reader: None,
        emission: true,
        replayed: BTreeSet::new(),
        replay_valid: true,
        hist: Vec::new(),
        rng: rng.clone(),
        sig: Sig::default(),
        payload: 0x2000,
        prop: cfg.prop.clone(),
        exits: [0; 4],
        remove_middle_reinsert: 0,
        last_removed_middle: false,
        slices_compared: 0,
        structural_checks: 0,
        events_compared: 0,
        removed_via: BTreeSet::new(),
        readonly_silent_checks: 0,
        restricted_partial_mut: 0,
        get_other_mut_stale: 0,
        unmerged_created: 0,
        unmerged: Vec::new(),
        get_other_unmerged: 0,
        stale_probes: BTreeSet::new(),
        stale_occupied: 0,
        modified_multiplicity_max: 0,
        boundary_indices,
        _pd: std::marker::PhantomData,
    };
    st.hist.push(format!("setup({}: created {}, kept {} entities, shape {})", C::NAME, n, st.live.len(), shape));
    // sometimes every live entity gets a component up front, in shuffled order: gap-free storages whose
    // internal (dense) order is a permutation of the index order
    if st.rng.chance(1, 3) && st.live.len() <= 300 {
        let mut order = st.live.clone();
        st.rng.shuffle(&mut order);
        for e in order {
            let p = st.p();
            if let Out::InsOk(None, s) = Drv::<C>(std::marker::PhantomData).access(st.w(), e, Path::Insert, p) {
                st.model.insert(e, s);
            }
        }
        st.hist.push("prefill(all live entities, shuffled order)".into());
    }
    if C::TRACKED != 0 {
        {
            let mut s = st.world.as_ref().unwrap().write_storage::<C>();
            st.reader = C::register_reader(&mut s);
        }
        // membership at registration time is the baseline the event stream is replayed over
        st.replayed = st.idx_model().keys().cloned().collect();
    }
    let prop = cfg.prop.as_str();
    // weights: access, join_shared, join_mut, join_mut_lend, restricted, entries, drain, clear, slices, toggle, churn
    let weights: [u32; 11] = match prop {
        "C03" => [70, 2, 3, 3, 8, 2, 2, 1, 2, 0, 12],
        "C12" => [48, 4, 6, 6, 8, 5, 5, 0, 0, 4, 12],
        "C13" => [25, 2, 3, 3, 45, 3, 3, 1, 1, 3, 10],
        "C08" => [45, 2, 4, 4, 4, 6, 10, 5, 3, 1, 14],
        _ => [50, 4, 5, 5, 5, 5, 5, 2, 6, 2, 9],
    };
    let dead_pct = if prop == "C03" { 55 } else { 15 };
    let nops = rng.range(cfg.ops / 3 + 1, cfg.ops);
    let mut failure: Option<(Fail, usize)> = None;
    let big = n > 1000;
    for step in 1..=nops {
        let c = st.rng.weighted(&weights);
        let r: R = (|| {
            match c {
                0 => st.op_access(dead_pct)?,
                1 => st.op_join_shared()?,
                2 => st.op_join_mut(false)?,
                3 => st.op_join_mut(true)?,
                4 => st.op_restricted()?,
                5 => st.op_entries()?,
                6 => st.op_drain()?,
                7 => st.op_clear()?,
                8 => st.op_slices()?,
                9 => st.op_toggle()?,
                _ => st.op_churn()?,
            }
            if let Some(m) = ledger::take_faults().into_iter().next() {
                return Err(("C08", m));
            }
            let lite = cfg.extra_u64("lite", 0) as usize;
            if (lite > 0 && step % lite == 0) || (lite == 0 && (!big || step % 8 == 0)) {
                st.full_check()?;
            }
            Ok(())
        })();
        if let Err(f) = r {
            failure = Some((f, step));
            break;
        }
    }
    // Targeted scenario (C08): the only way the mask update of an insert can unwind is an index
    // beyond the bit set's range; the value written just before must then be taken back out.
    let mut big_index_probe = 0u64;
    if failure.is_none() && !cfg!(miri) && cfg.extra_u64("bigid", 1) == 1 && !C::NAME.contains("Default") && rng.chance(1, 6) {
        let r: R = (|| {
            trace::set_ctx("C08");
            let big = st.w().entities().entity((1u32 << 24) + 1 + rng.below(3) as u32);
            if !st.w().entities().is_alive(big) {
                return Ok(()); // unchecked handle no longer accepted: scenario not reachable
            }
            let before = ledger::undropped().into_iter().filter(|x| x.2 == ledger::Loc::World).count();
            let (zb, zd) = ledger::zst_balance();
            let p = st.p();
            let drv = Drv::<C>(std::marker::PhantomData);
            let res = {
                let world = st.world.as_ref().unwrap();
                std::panic::catch_unwind(std::panic::AssertUnwindSafe(|| drv.access(world, big, Path::Insert, p)))
            };
            st.log(format!("insert at out-of-range index {} -> {}", big.id(), if res.is_err() { "panicked".to_string() } else { format!("{:?}", res) }));
            match res {
                Err(_) => {
                    big_index_probe = 1;
                    let after = ledger::undropped().into_iter().filter(|x| x.2 == ledger::Loc::World).count();
                    if after != before {
                        return Err(("C08", format!("{}: the insertion unwound while updating the mask, but the value written to the storage was not taken out again ({} values alive in the world before, {} after)", C::NAME, before, after)));
                    }
                    let (zb2, zd2) = ledger::zst_balance();
                    if C::IS_ZST && (zb2 - zd2) != (zb - zd) {
                        return Err(("C08", format!("{}: the insertion unwound while updating the mask, but the zero-sized value was not released", C::NAME)));
                    }
                }
                Ok(Out::InsOk(None, s)) => {
                    // accepted (bit set grew): treat as a normal member and take it out again
                    let out = drv.access(st.w(), big, Path::Remove, 0);
                    if out != Out::Found(s) {
                        return Err(("C04", format!("{}: value inserted at index {} could not be removed again: {:?}", C::NAME, big.id(), out)));
                    }
                }
                Ok(other) => return Err(("C04", format!("{}: unexpected result of insert at index {}: {:?}", C::NAME, big.id(), other))),
            }
            // drain the events this produced, they are not part of any window
            if let Some(r) = st.reader.as_mut() {
                let s = st.world.as_ref().unwrap().read_storage::<C>();
                let _ = C::read_events(&s, r);
                st.replay_valid = false;
            }
            st.full_check()
        })();
        if let Err(f) = r {
            failure = Some((f, nops + 1));
        }
    }
    if failure.is_none() {
        let r: R = (|| {
            st.full_check()?;
            st.op_slices()?;
            st.exits[3] += st.model.len() as u64;
            let w = st.world.take().unwrap();
            drop(w);
            st.hist.push("drop(world)".into());
            if let Some(m) = ledger::take_faults().into_iter().next() {
                return Err(("C08", m));
            }
            let left = ledger::undropped();
            if let Some((id, origin, loc)) = left.first() {
                return Err(("C08", format!("{}: after the world was dropped value {} ({:?}, owned by {:?}) was never destroyed: leaked ({} in total)", C::NAME, id, origin, loc, left.len())));
            }
            let (b, d) = ledger::zst_balance();
            if b != d {
                return Err(("C08", format!("{}: {} zero-sized components created but {} destroyed after the world was dropped", C::NAME, b, d)));
            }
            Ok(())
        })();
        if let Err(f) = r {
            failure = Some((f, nops + 1));
        }
    }
    rep.cases_run += 1;
    rep.bump(&format!("cases_{}", C::NAME), 1);
    rep.bump("ops_total", st.hist.len() as u64);
    rep.bump("values_returned", st.exits[0]);
    rep.bump("values_destroyed_by_entity_deletion", st.exits[1]);
    rep.bump("values_destroyed_by_clear", st.exits[2]);
    rep.bump("values_destroyed_by_world_drop", st.exits[3]);
    rep.bump("remove_from_middle_then_reinsert", st.remove_middle_reinsert);
    rep.bump("slice_slots_compared", st.slices_compared);
    rep.bump("dense_structural_checks", st.structural_checks);
    rep.bump("event_windows_compared", st.events_compared);
    rep.bump("readonly_windows_checked_silent", st.readonly_silent_checks);
    rep.bump("restricted_partial_mut_on_tracked", st.restricted_partial_mut);
    rep.bump("get_other_mut_on_stale_occupied", st.get_other_mut_stale);
    rep.bump("entities_created_unmerged", st.unmerged_created);
    rep.bump("get_other_on_unmerged_member", st.get_other_unmerged);
    rep.bump("stale_probes_on_occupied_index", st.stale_occupied);
    rep.bump("members_on_layer_boundaries", st.boundary_indices);
    rep.bump("mask_update_unwound_probes", big_index_probe);
    rep.max("max_modified_multiplicity", st.modified_multiplicity_max);
    rep.bump(&format!("shape_{}", shape), 1);
    for h in &st.hist {
        rep.op(h.split(|c| c == '(' || c == ' ').next().unwrap_or("?"));
    }
    let nontrivial = match prop {
        "C03" => st.stale_probes.len() >= 3 && st.stale_occupied >= 1,
        "C08" => st.exits.iter().filter(|x| **x >= 1).count() >= 3,
        "C12" => C::TRACKED != 0 && st.removed_via.len() >= 2 && st.readonly_silent_checks >= 1,
        "C13" => st.restricted_partial_mut >= 1 || (C::TRACKED == 0 && st.hist.iter().any(|h| h.starts_with("restricted"))),
        _ => st.remove_middle_reinsert >= 1 && (st.slices_compared >= 1 || !matches!(C::NAME, "CVec" | "CDense" | "CDefault" | "CVec2" | "CDense2")),
    };
    if nontrivial && failure.is_none() {
        let mut sig = st.sig;
        sig.push(hash_str(C::NAME));
        rep.distinct(sig.0);
    }
    if nontrivial && rep.samples.len() < 2 {
        let h: Vec<&String> = st.hist.iter().take(40).collect();
        rep.sample(serde_json::json!({"case": case, "kind": C::NAME, "ops": h}));
    }
    if let Some(((p, msg), step)) = failure {
        let sig = format!("{}:{}", p, msg.split(':').next().unwrap_or(""));
        rep.violation(p, case, step, msg, sig, &st.hist);
    }
    drop(st);
    let _ = ledger::take_faults();
}

type CaseFn = fn(&mut Report, u64);

fn kinds(prop: &str) -> Vec<CaseFn> {
    let plain: Vec<CaseFn> = vec![
        run_case::<CVec>,
        run_case::<CDense>,
        run_case::<CDefault>,
        run_case::<CHash>,
        run_case::<CBTree>,
        run_case::<CNull>,
    ];
    let tracked: Vec<CaseFn> = vec![
        run_case::<CFlagVec>,
        run_case::<CFlagDense>,
        run_case::<CFlagDefault>,
        run_case::<CFlagHash>,
        run_case::<CFlagBTree>,
        run_case::<CDerefVec>,
        run_case::<CDerefDense>,
        run_case::<CDerefDefault>,
        run_case::<CDerefHash>,
        run_case::<CDerefBTree>,
        run_case::<CFlagNull>,
    ];
    match prop {
        "C12" => tracked,
        _ => plain.into_iter().chain(tracked).collect(),
    }
}

pub fn run(rep: &mut Report) {
    let ks = kinds(&rep.cfg.prop.clone());
    if rep.cfg.prop == "C20" {
        let mut hashes = std::collections::BTreeMap::new();
        for case in rep.cfg.my_cases() {
            if rep.full() {
                break;
            }
            let f = ks[(case % ks.len() as u64) as usize];
            crate::report::guarded_det(rep, case, &mut hashes, &|rep: &mut Report| f(rep, case));
        }
        crate::report::push_transcripts(rep, &hashes);
        return;
    }
    for case in rep.cfg.my_cases() {
        if rep.full() {
            break;
        }
        let f = ks[(case % ks.len() as u64) as usize];
        crate::report::guarded(rep, case, |rep| f(rep, case));
    }
    for (k, v) in ledger::stats_snapshot() {
        rep.bump(&k, v);
    }
}
