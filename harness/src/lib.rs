//! Runtime-verification harness for amethyst/specs (see /verif/DESIGN.md).
#![allow(clippy::all)]

pub mod ledger;
pub mod report;
pub mod rng;
pub mod comps;
pub mod access;
pub mod model;
pub mod eng_world;
pub mod eng_storage;
pub mod eng_join;
pub mod eng_changeset;
pub mod eng_panicdrop;
pub mod eng_conc;
pub mod eng_det;
pub mod eng_saveload;
pub mod eng_dispatch;
