//! Instrumented component values and the construction / destruction ledger.
//!
//! Every value carries a unique id, a check word (id ^ MAGIC) and a boxed copy
//! of its id, so that a double drop / stale read is a *physical* double free /
//! use-after-free for Miri and ASan and a recognisable mismatch natively.
//! The ledger never stores addresses (that would hide leaks from LSan).

use std::collections::BTreeMap;
use std::sync::Mutex;

pub const MAGIC: u64 = 0x5EC5_1DE0_C0FF_EE11;
pub const DEFAULT_PAYLOAD: u64 = 0xDEFA_0017;

#[derive(Clone, Copy, PartialEq, Eq, Debug)]
pub enum Origin {
    New,
    Default,
}

#[derive(Clone, Copy, PartialEq, Eq, Debug)]
pub enum Loc {
    Harness,
    World,
}

#[derive(Clone, Copy, Debug)]
struct Rec {
    origin: Origin,
    loc: Loc,
    dropped: bool,
}

#[derive(Clone, Copy, PartialEq, Eq, PartialOrd, Ord, Debug, Hash)]
pub struct Snap {
    pub id: u64,
    pub payload: u64,
}

pub const ZST_SNAP: Snap = Snap { id: u64::MAX, payload: 0 };

#[derive(Default)]
pub struct Stats {
    pub born_new: u64,
    pub born_default: u64,
    pub given: u64,
    pub returned: u64,
    pub destroyed_in_world: u64,
    pub dropped_by_harness: u64,
    pub zst_born: u64,
    pub zst_dropped: u64,
    pub observations: u64,
    pub injected_panics: u64,
}

pub struct Ledger {
    next_id: u64,
    recs: BTreeMap<u64, Rec>,
    pub faults: Vec<String>,
    /// C19: countdown of in-world destructions until one panics (0 = disarmed).
    panic_countdown: u64,
    pub panicked_id: Option<u64>,
    pub panic_injected: bool,
    zst_born: u64,
    zst_dropped: u64,
    zst_panic_countdown: u64,
    /// countdown of library-side `Default::default()` constructions until one panics (0 = disarmed)
    default_panic_countdown: u64,
    pub stats: Stats,
}

static LEDGER: Mutex<Option<Ledger>> = Mutex::new(None);

fn with<R>(f: impl FnOnce(&mut Ledger) -> R) -> R {
    let mut g = LEDGER.lock().unwrap_or_else(|e| e.into_inner());
    if g.is_none() {
        *g = Some(Ledger {
            next_id: 1,
            recs: BTreeMap::new(),
            faults: Vec::new(),
            panic_countdown: 0,
            panicked_id: None,
            panic_injected: false,
            zst_born: 0,
            zst_dropped: 0,
            zst_panic_countdown: 0,
            default_panic_countdown: 0,
            stats: Stats::default(),
        });
    }
    f(g.as_mut().unwrap())
}

/// Start a new history: forget all records (ids keep increasing).
pub fn reset() {
    with(|l| {
        l.recs.clear();
        l.faults.clear();
        l.panic_countdown = 0;
        l.zst_panic_countdown = 0;
        l.default_panic_countdown = 0;
        l.panicked_id = None;
        l.panic_injected = false;
        l.zst_born = 0;
        l.zst_dropped = 0;
    })
}

/// Determinism runs (C20) replay the same case twice: restart the id counter so transcripts that
/// mention value ids are comparable. Only safe when no value of an earlier case can still be alive.
pub fn reset_ids() {
    with(|l| {
        l.recs.clear();
        l.next_id = 1;
    })
}

pub fn take_faults() -> Vec<String> {
    with(|l| std::mem::take(&mut l.faults))
}

pub fn has_faults() -> bool {
    with(|l| !l.faults.is_empty())
}

pub fn fault(msg: String) {
    with(|l| l.faults.push(msg))
}

/// The value `id` is being moved into the world.
pub fn given(id: u64) {
    with(|l| {
        l.stats.given += 1;
        match l.recs.get_mut(&id) {
            Some(r) if !r.dropped && r.loc == Loc::Harness => r.loc = Loc::World,
            Some(r) => {
                let m = format!("ledger: value {} given to the world while {:?}", id, r);
                l.faults.push(m)
            }
            None => l.faults.push(format!("ledger: unknown value {} given", id)),
        }
    })
}

/// The world handed value `id` back to the caller.
pub fn returned(id: u64) {
    with(|l| {
        l.stats.returned += 1;
        match l.recs.get_mut(&id) {
            Some(r) if !r.dropped && r.loc == Loc::World => r.loc = Loc::Harness,
            Some(r) => {
                let m = format!(
                    "value {} handed back by the world but it was already {}",
                    id,
                    if r.dropped { "destroyed" } else { "handed back earlier" }
                );
                l.faults.push(m)
            }
            None => l.faults.push(format!("world handed back a value with unknown id {}", id)),
        }
    })
}

/// Is `id` currently live (not dropped) and owned by the world?
pub fn live_in_world(id: u64) -> bool {
    with(|l| matches!(l.recs.get(&id), Some(r) if !r.dropped && r.loc == Loc::World))
}

pub fn is_dropped(id: u64) -> bool {
    with(|l| matches!(l.recs.get(&id), Some(r) if r.dropped))
}

pub fn origin(id: u64) -> Option<Origin> {
    with(|l| l.recs.get(&id).map(|r| r.origin))
}

/// Arm: the k-th in-world destruction from now panics (k >= 1).
pub fn arm_panic(k: u64) {
    with(|l| {
        l.panic_countdown = k;
        l.panicked_id = None;
    })
}
pub fn arm_zst_panic(k: u64) {
    with(|l| l.zst_panic_countdown = k)
}
pub fn arm_default_panic(k: u64) {
    with(|l| l.default_panic_countdown = k)
}
pub fn disarm() -> bool {
    with(|l| {
        let was = l.panic_countdown != 0 || l.zst_panic_countdown != 0 || l.default_panic_countdown != 0;
        l.panic_countdown = 0;
        l.zst_panic_countdown = 0;
        l.default_panic_countdown = 0;
        was
    })
}
pub fn panic_was_injected() -> bool {
    with(|l| l.panic_injected)
}

/// Number of in-world values not yet destroyed, and their ids (for leak reports).
pub fn undropped() -> Vec<(u64, Origin, Loc)> {
    with(|l| {
        l.recs
            .iter()
            .filter(|(_, r)| !r.dropped)
            .map(|(&id, r)| (id, r.origin, r.loc))
            .collect()
    })
}
pub fn zst_balance() -> (u64, u64) {
    with(|l| (l.zst_born, l.zst_dropped))
}
pub fn stats_snapshot() -> BTreeMap<String, u64> {
    with(|l| {
        let s = &l.stats;
        let mut m = BTreeMap::new();
        m.insert("ledger_born_new".into(), s.born_new);
        m.insert("ledger_born_default".into(), s.born_default);
        m.insert("ledger_given".into(), s.given);
        m.insert("ledger_returned".into(), s.returned);
        m.insert("ledger_destroyed_in_world".into(), s.destroyed_in_world);
        m.insert("ledger_dropped_by_harness".into(), s.dropped_by_harness);
        m.insert("ledger_zst_born".into(), s.zst_born);
        m.insert("ledger_zst_dropped".into(), s.zst_dropped);
        m.insert("ledger_observations".into(), s.observations);
        m.insert("ledger_injected_panics".into(), s.injected_panics);
        m
    })
}

pub struct Val {
    pub id: u64,
    check: u64,
    pub payload: u64,
    heap: Box<u64>,
}

impl std::fmt::Debug for Val {
    fn fmt(&self, f: &mut std::fmt::Formatter) -> std::fmt::Result {
        write!(f, "Val#{}({:#x})", self.id, self.payload)
    }
}

impl Val {
    fn born(payload: u64, origin: Origin, loc: Loc) -> Val {
        let id = with(|l| {
            let id = l.next_id;
            l.next_id += 1;
            l.recs.insert(id, Rec { origin, loc, dropped: false });
            match origin {
                Origin::New => l.stats.born_new += 1,
                Origin::Default => l.stats.born_default += 1,
            }
            id
        });
        Val { id, check: id ^ MAGIC, payload, heap: Box::new(id) }
    }

    /// A fresh value owned by the harness.
    pub fn new(payload: u64) -> Val {
        Val::born(payload, Origin::New, Loc::Harness)
    }

    /// Look at a value exposed by the world: it must be intact, ledger-live and
    /// owned by the world. Faults are recorded in the ledger.
    pub fn observe(&self) -> Snap {
        let intact = self.check == self.id ^ MAGIC && *self.heap == self.id;
        with(|l| {
            l.stats.observations += 1;
            if !intact {
                l.faults.push(format!(
                    "exposed value is corrupt or was never written: id={:#x} check={:#x} heap={:#x}",
                    self.id, self.check, *self.heap
                ));
            } else {
                match l.recs.get(&self.id) {
                    Some(r) if r.dropped => l
                        .faults
                        .push(format!("world exposed value {} after it was destroyed", self.id)),
                    Some(r) if r.loc == Loc::Harness => l.faults.push(format!(
                        "world exposed value {} after it was handed back to the caller",
                        self.id
                    )),
                    Some(_) => {}
                    None => l.faults.push(format!("world exposed unknown value id {}", self.id)),
                }
            }
        });
        Snap { id: self.id, payload: self.payload }
    }

    /// Look at a value the harness owns (after the world handed it back).
    pub fn snap(&self) -> Snap {
        let intact = self.check == self.id ^ MAGIC && *self.heap == self.id;
        if !intact {
            fault(format!("returned value is corrupt: id={:#x} check={:#x}", self.id, self.check));
        }
        Snap { id: self.id, payload: self.payload }
    }
}

impl Default for Val {
    /// Created by the library (`Default::default()` inside a storage): owned by
    /// the world from birth.
    fn default() -> Val {
        let boom = with(|l| {
            if l.default_panic_countdown > 0 {
                l.default_panic_countdown -= 1;
                if l.default_panic_countdown == 0 {
                    l.panic_injected = true;
                    l.stats.injected_panics += 1;
                    return true;
                }
            }
            false
        });
        if boom {
            panic!("verif: injected panic in Default::default()");
        }
        Val::born(DEFAULT_PAYLOAD, Origin::Default, Loc::World)
    }
}

impl Drop for Val {
    fn drop(&mut self) {
        let intact = self.check == self.id ^ MAGIC;
        let do_panic = with(|l| {
            if !intact {
                l.faults.push(format!(
                    "destructor ran on a corrupt / never-written value: id={:#x} check={:#x}",
                    self.id, self.check
                ));
                return false;
            }
            let id = self.id;
            match l.recs.get_mut(&id) {
                Some(r) if r.dropped => {
                    l.faults.push(format!("value {} destroyed twice", id));
                    false
                }
                Some(r) => {
                    r.dropped = true;
                    if r.loc == Loc::World {
                        l.stats.destroyed_in_world += 1;
                        if l.panic_countdown > 0 {
                            l.panic_countdown -= 1;
                            if l.panic_countdown == 0 {
                                l.panicked_id = Some(id);
                                l.panic_injected = true;
                                l.stats.injected_panics += 1;
                                return true;
                            }
                        }
                    } else {
                        l.stats.dropped_by_harness += 1;
                    }
                    false
                }
                None => {
                    // value from an earlier history (records were reset): ignore
                    false
                }
            }
        });
        if do_panic && !std::thread::panicking() {
            panic!("verif: injected destructor panic (value {})", self.id);
        }
    }
}

/// Zero-sized instrumented component (for `NullStorage`). Cannot carry an id,
/// so it is accounted for by a born / dropped counter pair.
pub struct Z(());

impl Z {
    pub fn new() -> Z {
        with(|l| {
            l.zst_born += 1;
            l.stats.zst_born += 1;
        });
        Z(())
    }
}
impl Default for Z {
    fn default() -> Z {
        Z::new()
    }
}
impl std::fmt::Debug for Z {
    fn fmt(&self, f: &mut std::fmt::Formatter) -> std::fmt::Result {
        write!(f, "Z")
    }
}
impl Drop for Z {
    fn drop(&mut self) {
        let do_panic = with(|l| {
            l.zst_dropped += 1;
            l.stats.zst_dropped += 1;
            if l.zst_dropped > l.zst_born {
                l.faults.push(format!(
                    "zero-sized component destroyed {} times but only {} were created",
                    l.zst_dropped, l.zst_born
                ));
            }
            if l.zst_panic_countdown > 0 {
                l.zst_panic_countdown -= 1;
                if l.zst_panic_countdown == 0 {
                    l.panic_injected = true;
                    l.stats.injected_panics += 1;
                    return true;
                }
            }
            false
        });
        if do_panic && !std::thread::panicking() {
            panic!("verif: injected destructor panic (zero-sized component)");
        }
    }
}
