#!/usr/bin/env python3
"""Regenerates /verif/MANIFEST.json from plans.py and the per-property texts below."""
import json
import os
import subprocess
import sys

VERIF = os.path.dirname(os.path.abspath(__file__))
sys.path.insert(0, VERIF)
from plans import PLANS, LEVELS  # noqa: E402

TEXT = {
    "C01": ("reference-model monitor over random create/delete/maintain histories (uniqueness set + allocator invariant hook), Miri/ASan on the same workload",
            "Every handle returned by any of the nine creation paths is checked at the moment of return against the set of all handles ever returned and against the occupant of its index; after every operation the verif-hooks snapshot of the allocator (generations / alive / raised / killed / free list / max_id) is checked for structural invariants. Exploration of seeded random histories with planted 4-7 step motifs; thorough adds long histories, Miri and ASan. The concurrency engine (scheduler-driven and free-running threads creating through shared access) runs under this check too: a handle returned to two threads is a C01 violation.",
            "3.C01"),
    "C02": ("lifecycle reference model compared step-by-step with Entities::is_alive / World::is_alive / deletion results / entities join",
            "After every operation of a random history the results of deletions (incl. failing batches with repeated and dead handles), the entities join and aliveness of every handle ever returned (all of them for small histories, latest stale handle per index plus a sample otherwise) are compared with a create/delete/maintain timeline model; the allocator's pending sets are cross-checked through the hook.",
            "3.C02"),
    "C03": ("stale-handle probes through every handle-taking access path with full before/after storage comparison",
            "Dead handles (index free, reused once or many times, occupant merged or awaiting maintain) are sent through 15 access paths (get, get_mut, contains, insert, remove, entry, entry.or_insert_with, get_mut_or_default, lend-join get shared/mut, restricted get_other / get_other_mut (read and write views), ReadStorage get/contains) on every storage kind; each must behave as absent and the complete storage contents must be unchanged afterwards.",
            "3.C03"),
    "C05": ("component-map reference model over 3-9 storages registered through every registration path, compared after every deletion-effect point and creation",
            "After every operation the mask and every value of every registered storage is compared with the model: a deleted entity's components are gone from all storages (and their destructors ran, per ledger), survivors are untouched, new entities (incl. on reused indices) own exactly what they were given.",
            "3.C05"),
    "C08": ("construction/destruction ledger of instrumented component values (conservation, exactly-once), physical counterpart under Miri and ASan/LSan",
            "Every value moved into a world carries a unique id, a check word and a heap box; the ledger flags double drops, double returns, exposure after return/destruction, never-written slots, and - after drop(world) - leaks. Zero-sized components are balanced by counters. The fault grid of C19 (injected destructor / Default panics) runs under this check as well: after a caught panic nothing may be destroyed twice; the mask-update-unwinds scenario (index beyond the bit set range) checks the RemoveOnDrop guard.",
            "3.C08"),
    "C09": ("lazy-queue reference model + execution log of queued closures, full-state comparison after every maintain",
            "Queued closures carry unique ids and log their observations (aliveness of deferred creations/deletions, component presence) while running; the model executes the same FIFO (nested enqueues run later in the same maintain), then log order, multiplicity, maintain number and the complete world state must agree; a second maintain must run nothing.",
            "3.C09"),
    "C17": ("index-bound oracle (every new index < running peak of not-yet-dead entities) + free-list completeness via the allocator hook",
            "At every creation the returned index is compared with the running peak; at every quiescent point the hook verifies that every dead index below max_id is on the free list. Long histories and failing batches are weighted up. Under concurrent creation (concurrency engine) exactly min(#creations, #free entries) creations must recycle an index and no dead index may be missing from the free list at the quiescent point.",
            "3.C17"),
}

TEXT.update({
    "C04": ("differential monitor: every storage kind / wrapper combination against a BTreeMap over arbitrary operation sequences, slice views and dense-table hook included",
            "Return values (incl. replaced / removed value ids), mask, count, emptiness and every lookup are compared with a plain map after every operation of seeded random sequences over 17 storage/wrapper combinations and dense / sparse / layer-boundary index sets; as_slice / as_mut_slice views and the DenseVecStorage index tables (verif-hooks self-check) are compared too. Small Miri stage in the quick tier; thorough adds far indices (>262144) and ASan. An insertion whose default-filler construction panics (injected) must leave the map unchanged (fault-grid stage).",
            "3.C04"),
    "C06": ("set-algebra oracle over self-identifying join items (order, multiplicity, own components, mutation locality) for macro-generated join shapes of every arity",
            "For every shape and membership assignment the expected ascending index list is computed with BTreeSet algebra on the model; every yielded item must sit at its position, each member slot must carry that index's own component (by value id), optional members must be reported correctly, writes through items must land on that entity only (full storage comparison afterwards); lending joins must visit the same indices and get(entity) must answer exactly for alive-and-in-intersection.",
            "3.C06"),
    "C07": ("exactly-once delivery monitor for par_join (per-index counters, index->thread partition signatures) against the sequential-join oracle; TSan on the same runs",
            "Each worker reports (index, component ids, rayon thread index); after the parallel join every index of the sequential intersection must have been delivered exactly once, each item must carry that index's own components, and all writes made by workers must be visible in the storages. Pool sizes 1-64 and seeded per-item delays vary the split tree, which is observed (distinct partition signatures) but not controlled. Thorough adds ThreadSanitizer.",
            "3.C07"),
    "C16": ("order-sensitive accumulation model (amount = sequence, += appends) + ledger for by-value consumption, structural hook on the change set's dense storage",
            "After every collect / extend / add / clear the change set's mask and every accumulated sequence must equal the per-entity fold in arrival order; shared, mutable, by-value (complete and partial) joins, alone and with storages and entities, must pair each sum with its own entity exactly once; the ledger shows every amount is yielded or destroyed exactly once; sequences of up to 160 pairs; ChangeSet::clear / drop / by-value join under injected destructor panics (fault-grid stage).",
            "3.C16"),
    "C19": ("fault enumeration of panicking destructors with a destruction ledger, exposure checks (join / lookup / slice views) and a re-synchronised model for continued use",
            "The k-th in-world destructor call of the operation panics once (instrumented Drop); after catch_unwind the ledger must show no value destroyed twice, everything the world still exposes must be ledger-live, the world must keep behaving like a map re-synchronised from what it exposes, and its teardown must not destroy anything twice. Leaks after a panic are allowed, as the property says.",
            "3.C19"),
    "C10": ("history monitor at the client boundary (pairwise distinctness, per-call postconditions, set and exactly-once equations after maintain) over scheduler-driven and free-running interleavings; TSan and Miri on the stress mode",
            "Every thread records (call, result); handles must be pairwise distinct and alive for their creator at once, deletions of live handles must succeed, concurrent joins must see every entity alive for the joining thread; after maintain the alive set must equal initial + created - delete-requested, every queued action must have run exactly once, and the allocator hook invariants must hold. Interleavings between the atomic steps of allocate_atomic / kill_atomic / the CAS loops are driven by a token-passing scheduler through the verif-hooks yield points: sampled with a seeded PRNG for random programs, and enumerated exhaustively (depth first) for ten small programs on three initial allocator states; free-running stress, ThreadSanitizer and Miri cover dependency internals and weak-memory behaviours on a best-effort basis.",
            "3.C10"),
    "C20": ("transcript differencing: lock-step worlds, interference from unrelated worlds/threads, and separate processes (different hash seeds, ASLR, debug vs release)",
            "The canonical transcript of every handle, result, join sequence, event stream and serialised string of a history is compared between two worlds in one process, against a run disturbed by unrelated worlds on the same and another thread, and - by hash - across separate processes and build flavours. The histories of the world engine (all creation / deletion paths, lazy updates) and of the storage engine (all storage kinds) are replayed twice per process (second run on another thread) and compared across processes as well.",
            "3.C20"),
    "C11": ("overlap monitor (per-storage reader/writer counters, logical-clock intervals, torn-write tokens) inside generated systems + borrow-state probe of SystemData declarations",
            "Random system graphs are dispatched on pools of 1-32 threads; each system updates atomic reader/writer counters for exactly the storages it holds, writes and re-validates unique tokens, and stamps enter/exit from a logical clock; after each dispatch exactly-once, conflict-pair disjointness, dependency, barrier and thread-local order are checked, panics escaping dispatch are violations, and for each storage handle type the real borrow state after fetch() is compared with reads()/writes(). Thorough adds ThreadSanitizer.",
            "3.C11"),
    "C12": ("event-stream monitor: expected Inserted/Removed sequence and Modified set per operation window vs the channel, replay-reproduces-membership check",
            "A reader registered before the history is read after every operation; the Inserted/Removed subsequence must equal the model's exactly (order and multiplicity), the set of Modified ids must equal the set of components handed out mutably (deferred wrapper: actually dereferenced mutably), nothing may appear while emission is off, and replaying I/R over the membership at registration must reproduce the mask - also across caught destructor panics (fault-grid stage with a reader attached).",
            "3.C12"),
    "C13": ("ordered record of restricted-join activity replayed against the component map and the event model",
            "Restricted views are joined sequentially and lending, read-only and mutable, with seeded subsets of get / get_mut / get_other / get_other_mut; visited indices must equal the mask, reads equal direct lookups, writes land only on their entity, other-entity lookups follow the aliveness and membership rules, the mask is unchanged, and on tracked storages Modified appears exactly for the items fetched mutably.",
            "3.C13"),
    "C14": ("round-trip monitor through the marker correspondence with structural equality of components and mapped references; serialised data read back independently",
            "Seeded worlds with arbitrary reference graphs are serialised (RON/JSON, plain and recursive, both marker kinds), the data optionally permuted, loaded into an empty world and compared entity by entity through marker ids; the recursive closure is computed on the model.",
            "3.C14"),
    "C15": ("marker-uniqueness invariant checked after every step of mark/delete/maintain/serialise/deserialise histories + merge expectation from the data model",
            "After every step (entities, markers).join() must carry pairwise distinct marker ids equal to the model's; every load is checked record by record: known markers update in place (absent components removed), unknown markers create exactly one entity, everything else untouched.",
            "3.C15"),
    "C18": ("generated-program testing of the derive macros: generator-written field-wise reference conversion + call-count probe + TypeId comparison of selected storages",
            "Type definitions drawn from the grammar of supported shapes are compiled against the real macros together with an independent field-wise reference; Data fields, serialised form, round trip through non-identity entity maps, conversion call counts and forwarded serde attributes are compared on seeded values; derived Component storages are compared by TypeId. A shape that stops compiling is reported.",
            "3.C18"),
})

NOTE = "Trusted: the harness's reference models and ledger, rustc/Miri/sanitizer runtimes, shred/hibitset/rayon as dependencies. Sampled, seeded exploration - not exhaustive; evidence states what was observed."


def main():
    head = subprocess.run(["git", "-C", "/repo", "log", "--format=%h %s"], stdout=subprocess.PIPE, text=True).stdout.splitlines()
    hook_commits = [l.split()[0] for l in head if "verif-hooks:" in l]
    props = [json.loads(l) for l in open(os.path.join(VERIF, "properties.jsonl"))]
    checks = []
    na = []
    for p in props:
        pid = p["id"]
        if pid in PLANS and pid in TEXT:
            tech, text, ref = TEXT[pid]
            level = LEVELS.get(pid, "exploration")
            c = {
                "property_id": pid,
                "quick_cmd": "./check %s --tier quick" % pid,
                "thorough_cmd": "./check %s --tier thorough" % pid,
                "evidence_file": "/verif/evidence/%s.json" % pid,
                "replay_cmd_template": "./check %s --replay {path}" % pid,
                "engine": "+".join(sorted({s["engine"] for t in PLANS[pid].values() for s in t})),
                "level_claimed": {"category": level, "text": text, "design_ref": "DESIGN.md section " + ref},
                "level_note": NOTE,
                "technique": "runtime monitoring: " + tech,
            }
            checks.append(c)
        else:
            na.append({"property_id": pid, "reason": NA.get(pid, "check not built yet (work in progress in this session; designed in DESIGN.md section 3.%s)" % pid)})
    m = {
        "version": 1,
        "setup_cmd": "./check --setup",
        "hooks": {
            "guard": "cargo feature verif-hooks (off by default)",
            "enable": "the harness crate depends on specs with features = [\"verif-hooks\", ...] (see harness/Cargo.toml.in)",
            "baseline_off_cmd": "cd /repo && cargo test --workspace --no-fail-fast --offline",
            "source_commits": hook_commits,
            "add_only": True,
        },
        "engines": [
            {"name": "harness", "path": "/verif/harness", "serves_properties": sorted(PLANS),
             "kind_free_text": "Rust crate linking the real specs from /repo; one sub-command per engine; runs natively (debug/release), under Miri, ASan and TSan"},
        ],
        "checks": checks,
        "not_applicable": na,
        "notes": "All checks rebuild the harness against /repo's working tree. VERIF_SEED / VERIF_TIER are honoured. Known findings: /verif/known_findings.json.",
    }
    json.dump(m, open(os.path.join(VERIF, "MANIFEST.json"), "w"), indent=1)
    print("checks:", [c["property_id"] for c in checks], "not_applicable:", [n["property_id"] for n in na])


NA = {}

if __name__ == "__main__":
    main()
