// Hand-written support code shared by every generated C18 program (copied next to the
// generated `main.rs` by derivegen.py). Nothing in here is produced by the derive macros:
// it holds the value generator, the probe types, the two-world entity/marker environment,
// the `Case` trait (the generator-written field-wise REFERENCE for each generated type is an
// impl of this trait) and the per-type check loop.
#![allow(dead_code)]

use std::any::TypeId;
use std::cell::Cell;
use std::collections::BTreeMap;
use std::convert::Infallible;
use std::fmt::Debug;
use std::panic::{catch_unwind, AssertUnwindSafe};

use serde::{de::DeserializeOwned, Deserialize, Serialize};
use serde_json::{json, Value};
use specs::saveload::{ConvertSaveload, Marker, MarkerAllocator, SimpleMarker};
use specs::{Builder, Component, Entity, VecStorage, World, WorldExt};

// ------------------------------------------------------------------ rng

#[derive(Clone)]
pub struct Rng(pub u64);

impl Rng {
    pub fn next(&mut self) -> u64 {
        self.0 = self.0.wrapping_add(0x9E37_79B9_7F4A_7C15);
        let mut z = self.0;
        z = (z ^ (z >> 30)).wrapping_mul(0xBF58_476D_1CE4_E5B9);
        z = (z ^ (z >> 27)).wrapping_mul(0x94D0_49BB_1331_11EB);
        z ^ (z >> 31)
    }
    pub fn below(&mut self, n: u64) -> u64 {
        self.next() % n.max(1)
    }
    /// Small values, boundary values and arbitrary values mixed.
    pub fn int(&mut self, max: u64) -> u64 {
        match self.below(8) {
            0 => 0,
            1 => max,
            2 => self.below(4),
            _ => {
                if max == u64::MAX {
                    self.next()
                } else {
                    self.below(max + 1)
                }
            }
        }
    }
    pub fn string(&mut self) -> String {
        const ALPHA: &[&str] = &[
            "a", "b", "Z", "0", " ", "\"", "\\", "\n", "\u{e9}", "\u{4e16}", ",", ":", "(", "}", "'", "/",
        ];
        let n = self.below(6);
        let mut s = String::new();
        for _ in 0..n {
            s.push_str(ALPHA[self.below(ALPHA.len() as u64) as usize]);
        }
        s
    }
}

pub fn mix(a: u64, b: u64) -> u64 {
    let mut r = Rng(a ^ b.wrapping_mul(0xD6E8_FEB8_6659_FD93));
    r.next()
}

// ------------------------------------------------------------------ call logs

thread_local! {
    static PROBE_INTO: Cell<u64> = Cell::new(0);
    static PROBE_FROM: Cell<u64> = Cell::new(0);
    static ENT_INTO: Cell<u64> = Cell::new(0);
    static ENT_FROM: Cell<u64> = Cell::new(0);
}

fn bump(c: &'static std::thread::LocalKey<Cell<u64>>) {
    c.with(|x| x.set(x.get() + 1));
}
fn take(c: &'static std::thread::LocalKey<Cell<u64>>) -> u64 {
    c.with(|x| x.replace(0))
}

// ------------------------------------------------------------------ probe types

/// Hand-written `ConvertSaveload` whose `Data` is a different type and whose conversion is
/// not the identity on the payload; every call is logged.
#[derive(Clone, PartialEq, Debug)]
pub struct Probe(pub u32);

#[derive(Clone, PartialEq, Debug, Serialize, Deserialize)]
pub struct ProbeData {
    pub v: u64,
}

pub fn probe_data(p: &Probe) -> ProbeData {
    ProbeData { v: p.0 as u64 * 3 + 7 }
}

impl<M> ConvertSaveload<M> for Probe {
    type Data = ProbeData;
    type Error = Infallible;

    fn convert_into<F>(&self, _ids: F) -> Result<ProbeData, Infallible>
    where
        F: FnMut(Entity) -> Option<M>,
    {
        bump(&PROBE_INTO);
        Ok(probe_data(self))
    }

    fn convert_from<F>(data: ProbeData, _ids: F) -> Result<Self, Infallible>
    where
        F: FnMut(M) -> Option<Entity>,
    {
        bump(&PROBE_FROM);
        Ok(Probe(((data.v.wrapping_sub(7)) / 3) as u32))
    }
}

/// Neither `Serialize` nor `ConvertSaveload`: only usable in a derived type as a field marked
/// `#[convert_save_load_skip_convert]` + forwarded `serde(skip, default)` (the shape the repo's
/// own tests use). Such a field comes back as `Default::default()`.
#[derive(Clone, PartialEq, Debug)]
pub struct Opaque(pub u32);

impl Default for Opaque {
    fn default() -> Self {
        Opaque(0xD1CE)
    }
}

/// Hand-written serde types (they get the blanket `ConvertSaveload`).
#[derive(Clone, PartialEq, Debug, Default, Serialize, Deserialize)]
pub struct Rec {
    pub a: u8,
    pub b: String,
}

#[derive(Clone, PartialEq, Debug, Default, Serialize, Deserialize)]
pub enum Kind {
    #[default]
    A,
    B(u8),
    C {
        x: u16,
    },
}

pub type Ent = Entity;

// ------------------------------------------------------------------ second marker kind

#[derive(Clone, Debug, PartialEq, Eq, Hash, Serialize, Deserialize)]
pub struct NetMarker {
    pub id: u64,
    pub seq: u32,
}

impl Component for NetMarker {
    type Storage = VecStorage<Self>;
}

impl Marker for NetMarker {
    type Allocator = NetAlloc;
    type Identifier = u64;

    fn id(&self) -> u64 {
        self.id
    }
}

#[derive(Default)]
pub struct NetAlloc {
    next: u64,
    map: BTreeMap<u64, Entity>,
}

impl MarkerAllocator<NetMarker> for NetAlloc {
    fn allocate(&mut self, entity: Entity, id: Option<u64>) -> NetMarker {
        let id = id.unwrap_or(self.next);
        if id >= self.next {
            self.next = id + 1;
        }
        self.map.insert(id, entity);
        NetMarker { id, seq: (id as u32).wrapping_mul(2_654_435_761) }
    }

    fn retrieve_entity_internal(&self, id: u64) -> Option<Entity> {
        self.map.get(&id).cloned()
    }

    fn maintain(&mut self, _e: &specs::world::EntitiesRes, _s: &specs::ReadStorage<NetMarker>) {}
}

pub struct SimpleTag;
pub type Simple = SimpleMarker<SimpleTag>;

// ------------------------------------------------------------------ environment

pub const N_ENTS: usize = 16;

/// Source world entities, their markers, and the target-world allocator. `ref_map` is the
/// oracle's own source-entity -> target-entity table, filled when the entities are created;
/// the conversion under test never sees it.
pub struct Env<M: Marker> {
    pub marker_name: &'static str,
    pub ents: Vec<Entity>,
    pub fwd: BTreeMap<Entity, M>,
    pub alloc_b: M::Allocator,
    pub ref_map: BTreeMap<Entity, Entity>,
    _worlds: (World, World),
}

pub fn build_env<M>(marker_name: &'static str, seed: u64) -> Env<M>
where
    M: Marker<Identifier = u64>,
    M::Allocator: Default,
{
    let mut r = Rng(mix(seed, 0xE17));
    let mut wa = World::new();
    let mut wb = World::new();
    // source world: a few throw-away entities first so ids do not start at 0
    let junk: Vec<Entity> = (0..3 + r.below(4)).map(|_| wa.create_entity().build()).collect();
    let ents: Vec<Entity> = (0..N_ENTS).map(|_| wa.create_entity().build()).collect();
    for j in junk {
        wa.delete_entity(j).unwrap();
    }
    wa.maintain();
    // target world: more entities, some recycled (generation 2), picked in a scrambled order
    let first: Vec<Entity> = (0..48).map(|_| wb.create_entity().build()).collect();
    for e in first.iter().take(12) {
        wb.delete_entity(*e).unwrap();
    }
    wb.maintain();
    let mut pool: Vec<Entity> = (0..12).map(|_| wb.create_entity().build()).collect();
    pool.extend(first.iter().skip(12).cloned());
    let mut targets = Vec::new();
    while targets.len() < N_ENTS {
        let k = r.below(pool.len() as u64) as usize;
        let cand = pool.swap_remove(k);
        let i = targets.len();
        // non-identity: the target of ents[i] must differ from ents[i] in id
        if cand.id() != ents[i].id() && wb.is_alive(cand) {
            targets.push(cand);
        }
    }
    let mut alloc_a: M::Allocator = Default::default();
    let mut alloc_b: M::Allocator = Default::default();
    let mut fwd = BTreeMap::new();
    let mut ref_map = BTreeMap::new();
    for i in 0..N_ENTS {
        let mid = 1000 + (i as u64) * 37 + r.below(30);
        let m = alloc_a.allocate(ents[i], Some(mid));
        let mb = alloc_b.allocate(targets[i], Some(mid));
        assert!(m.id() == mid && mb.id() == mid);
        fwd.insert(ents[i], m);
        ref_map.insert(ents[i], targets[i]);
    }
    Env { marker_name, ents, fwd, alloc_b, ref_map, _worlds: (wa, wb) }
}

// ------------------------------------------------------------------ the reference trait

pub enum Action {
    /// delete the key: a forwarded `serde(default)` must fill the field with its default
    Remove,
    /// rename the key to a forwarded `serde(alias = ..)`
    RenameTo(&'static str),
}

pub struct AttrProbe<T> {
    pub what: &'static str,
    /// path of object keys from the top of the serialized value to the object holding `key`
    pub path: Vec<&'static str>,
    pub key: &'static str,
    pub action: Action,
    pub expected: T,
}

/// Field-wise reference semantics. Leaf impls are below; the impl for every generated type is
/// written by derivegen.py from the type's definition (one line per field, in field order).
pub trait Case<M: Marker>:
    ConvertSaveload<M, Error = Infallible, Data: Serialize + DeserializeOwned + Clone> + Clone + PartialEq + Debug
{
    fn gen(r: &mut Rng, env: &Env<M>) -> Self;
    /// what convert_from(serde(convert_into(self))) must yield in the target world
    fn expect(&self, env: &Env<M>) -> Self;
    /// field-wise check of the `Data` value produced by convert_into
    fn check_data(&self, d: &<Self as ConvertSaveload<M>>::Data, env: &Env<M>) -> Result<(), String>;
    /// number of non-skipped `Probe` fields reachable in this value
    fn probes(&self) -> u64;
    /// number of `Entity` fields reachable in this value
    fn ents(&self) -> u64;
    /// JSON the `Data` value must serialize to (field names after forwarded serde attributes)
    fn json(&self, env: &Env<M>) -> Value;
    fn attr_probes(&self, _env: &Env<M>) -> Vec<AttrProbe<Self>> {
        Vec::new()
    }
}

macro_rules! plain_case {
    ($t:ty, $r:ident => $gen:expr) => {
        impl<M: Marker> Case<M> for $t {
            fn gen($r: &mut Rng, _env: &Env<M>) -> Self {
                $gen
            }
            fn expect(&self, _env: &Env<M>) -> Self {
                self.clone()
            }
            fn check_data(&self, d: &<Self as ConvertSaveload<M>>::Data, _env: &Env<M>) -> Result<(), String> {
                if d == self {
                    Ok(())
                } else {
                    Err(format!("data {:?} != field {:?}", d, self))
                }
            }
            fn probes(&self) -> u64 {
                0
            }
            fn ents(&self) -> u64 {
                0
            }
            fn json(&self, _env: &Env<M>) -> Value {
                serde_json::to_value(self).unwrap()
            }
        }
    };
}

plain_case!(u8, r => r.int(u8::MAX as u64) as u8);
plain_case!(u16, r => r.int(u16::MAX as u64) as u16);
plain_case!(u32, r => r.int(u32::MAX as u64) as u32);
plain_case!(u64, r => r.int(u64::MAX));
plain_case!(i32, r => r.int(u32::MAX as u64) as u32 as i32);
plain_case!(i64, r => r.int(u64::MAX) as i64);
plain_case!(bool, r => r.below(2) == 1);
plain_case!(char, r => ['a', 'Z', '"', '\\', '\u{e9}', '\n', '0'][r.below(7) as usize]);
plain_case!(String, r => r.string());
plain_case!(Vec<u32>, r => (0..r.below(4)).map(|_| r.int(u32::MAX as u64) as u32).collect());
plain_case!(Vec<String>, r => (0..r.below(3)).map(|_| r.string()).collect());
plain_case!(Vec<(u8, u8)>, r => (0..r.below(3)).map(|_| (r.next() as u8, r.next() as u8)).collect());
plain_case!(Option<u16>, r => if r.below(3) == 0 { None } else { Some(r.int(u16::MAX as u64) as u16) });
plain_case!(Option<String>, r => if r.below(3) == 0 { None } else { Some(r.string()) });
plain_case!((u8, u8), r => (r.next() as u8, r.next() as u8));
plain_case!((u32, String), r => (r.int(u32::MAX as u64) as u32, r.string()));
plain_case!([u8; 3], r => [r.next() as u8, r.next() as u8, r.next() as u8]);
plain_case!([u16; 2], r => [r.next() as u16, r.next() as u16]);
plain_case!(Box<u32>, r => Box::new(r.int(u32::MAX as u64) as u32));
plain_case!(Rec, r => Rec { a: r.next() as u8, b: r.string() });
plain_case!(Kind, r => match r.below(3) { 0 => Kind::A, 1 => Kind::B(r.next() as u8), _ => Kind::C { x: r.next() as u16 } });

impl<M: Marker> Case<M> for Entity {
    fn gen(r: &mut Rng, env: &Env<M>) -> Self {
        env.ents[r.below(env.ents.len() as u64) as usize]
    }
    fn expect(&self, env: &Env<M>) -> Self {
        env.ref_map[self]
    }
    fn check_data(&self, d: &<Self as ConvertSaveload<M>>::Data, env: &Env<M>) -> Result<(), String> {
        let want = &env.fwd[self];
        if d == want {
            Ok(())
        } else {
            Err(format!("marker {:?} != marker of {:?} which is {:?}", d, self, want))
        }
    }
    fn probes(&self) -> u64 {
        0
    }
    fn ents(&self) -> u64 {
        1
    }
    fn json(&self, env: &Env<M>) -> Value {
        serde_json::to_value(&env.fwd[self]).unwrap()
    }
}

impl<M: Marker> Case<M> for Probe {
    fn gen(r: &mut Rng, _env: &Env<M>) -> Self {
        Probe(r.int(u32::MAX as u64) as u32)
    }
    fn expect(&self, _env: &Env<M>) -> Self {
        self.clone()
    }
    fn check_data(&self, d: &ProbeData, _env: &Env<M>) -> Result<(), String> {
        if *d == probe_data(self) {
            Ok(())
        } else {
            Err(format!("probe data {:?} != {:?}", d, probe_data(self)))
        }
    }
    fn probes(&self) -> u64 {
        1
    }
    fn ents(&self) -> u64 {
        0
    }
    fn json(&self, _env: &Env<M>) -> Value {
        json!({ "v": self.0 as u64 * 3 + 7 })
    }
}

/// check_data for a field marked `#[convert_save_load_skip_convert]`: the `Data` field has the
/// field's own type and must hold an equal value.
pub fn same<T: PartialEq + Debug>(field: &T, data: &T) -> Result<(), String> {
    if field == data {
        Ok(())
    } else {
        Err(format!("skipped field: data {:?} != field {:?}", data, field))
    }
}

pub fn at(field: &str, r: Result<(), String>) -> Result<(), String> {
    r.map_err(|e| format!("{}: {}", field, e))
}

/// JSON object builder that leaves out `None` entries (serde-skipped fields).
pub fn obj(entries: Vec<Option<(&'static str, Value)>>) -> Value {
    let mut m = serde_json::Map::new();
    for e in entries.into_iter().flatten() {
        m.insert(e.0.to_string(), e.1);
    }
    Value::Object(m)
}

pub fn tagged(tag: &'static str, v: Value) -> Value {
    let mut m = serde_json::Map::new();
    m.insert(tag.to_string(), v);
    Value::Object(m)
}

// ------------------------------------------------------------------ run configuration / report

pub struct Cfg {
    pub seed: u64,
    pub values: u64,
    pub ron: bool,
    pub markers: u64,
    pub batch: u64,
}

pub fn parse_args() -> Cfg {
    let a: Vec<String> = std::env::args().collect();
    let mut c = Cfg { seed: 1, values: 10, ron: false, markers: 1, batch: 0 };
    let mut i = 1;
    while i + 1 < a.len() {
        match a[i].as_str() {
            "--seed" => c.seed = a[i + 1].parse().unwrap(),
            "--values" => c.values = a[i + 1].parse().unwrap(),
            "--formats" => c.ron = a[i + 1].contains("ron"),
            "--markers" => c.markers = a[i + 1].parse().unwrap(),
            "--batch" => c.batch = a[i + 1].parse().unwrap(),
            other => panic!("unknown argument {}", other),
        }
        i += 2;
    }
    c
}

#[derive(Default)]
pub struct Rep {
    pub cases_run: u64,
    pub counters: BTreeMap<String, u64>,
    pub violations: Vec<Value>,
    pub samples: Vec<Value>,
    pub viol_types: u64,
}

pub const MAX_VIOLATIONS: usize = 6;

impl Rep {
    pub fn bump(&mut self, k: &str, n: u64) {
        *self.counters.entry(k.to_string()).or_insert(0) += n;
    }
    pub fn finish(self) {
        let doc = json!({
            "cases_run": self.cases_run,
            "counters": self.counters,
            "violations": self.violations,
            "samples": self.samples,
        });
        println!("{}", serde_json::to_string(&doc).unwrap());
    }
}

pub struct TypeInfo {
    /// index of the type definition in the whole run
    pub idx: u64,
    pub name: &'static str,
    /// the Rust type expression under test (differs from `name` for generic instantiations)
    pub ty: &'static str,
}

fn panic_msg(e: Box<dyn std::any::Any + Send>) -> String {
    if let Some(s) = e.downcast_ref::<String>() {
        s.clone()
    } else if let Some(s) = e.downcast_ref::<&str>() {
        s.to_string()
    } else {
        "<non-string panic>".into()
    }
}

struct Fail {
    signature: &'static str,
    msg: String,
    actual: String,
}

fn fail(signature: &'static str, msg: String, actual: String) -> Fail {
    Fail { signature, msg, actual }
}

fn into_data<M: Marker, T: Case<M>>(v: &T, env: &Env<M>) -> Result<T::Data, Fail> {
    take(&PROBE_INTO);
    take(&PROBE_FROM);
    take(&ENT_INTO);
    let r = catch_unwind(AssertUnwindSafe(|| {
        v.convert_into(|e| {
            bump(&ENT_INTO);
            env.fwd.get(&e).cloned()
        })
    }));
    let d = match r {
        Ok(Ok(d)) => d,
        Ok(Err(e)) => match e {},
        Err(p) => return Err(fail("C18:derived convert_into panicked", panic_msg(p), String::new())),
    };
    let (pi, pf) = (take(&PROBE_INTO), take(&PROBE_FROM));
    let want = v.probes();
    if pi != want || pf != 0 {
        return Err(fail(
            "C18:field conversion not called exactly once per non-skipped field (convert_into)",
            format!("convert_into: probe log shows {} convert_into / {} convert_from calls, reference says {} / 0", pi, pf, want),
            String::new(),
        ));
    }
    Ok(d)
}

fn from_data<M: Marker, T: Case<M>>(d: T::Data, probes: Option<u64>, env: &Env<M>) -> Result<T, Fail> {
    take(&PROBE_INTO);
    take(&PROBE_FROM);
    take(&ENT_FROM);
    let r = catch_unwind(AssertUnwindSafe(|| {
        T::convert_from(d, |m: M| {
            bump(&ENT_FROM);
            env.alloc_b.retrieve_entity_internal(m.id())
        })
    }));
    let back = match r {
        Ok(Ok(b)) => b,
        Ok(Err(e)) => match e {},
        Err(p) => return Err(fail("C18:derived convert_from panicked", panic_msg(p), String::new())),
    };
    let (pi, pf) = (take(&PROBE_INTO), take(&PROBE_FROM));
    if let Some(want) = probes {
        if pf != want || pi != 0 {
            return Err(fail(
                "C18:field conversion not called exactly once per non-skipped field (convert_from)",
                format!("convert_from: probe log shows {} convert_from / {} convert_into calls, reference says {} / 0", pf, pi, want),
                format!("{:?}", back),
            ));
        }
    }
    Ok(back)
}

fn edit(v: &mut Value, path: &[&'static str], key: &str, action: &Action) -> bool {
    let mut cur = v;
    for p in path {
        match cur.get_mut(*p) {
            Some(n) => cur = n,
            None => return false,
        }
    }
    let m = match cur.as_object_mut() {
        Some(m) => m,
        None => return false,
    };
    match action {
        Action::Remove => m.remove(key).is_some(),
        Action::RenameTo(n) => match m.remove(key) {
            Some(x) => {
                m.insert(n.to_string(), x);
                true
            }
            None => false,
        },
    }
}

fn one_value<M: Marker<Identifier = u64>, T: Case<M>>(
    v: &T,
    expect: &T,
    env: &Env<M>,
    cfg: &Cfg,
    deep: bool,
    rep: &mut Rep,
) -> Result<(), Fail> {
    // A. convert_into, call log, field-wise Data check
    let d = into_data::<M, T>(v, env)?;
    rep.bump("probe_calls_checked", v.probes());
    rep.bump("entity_fields_converted", v.ents());
    if let Err(e) = catch_unwind(AssertUnwindSafe(|| v.check_data(&d, env))).unwrap_or_else(|p| Err(panic_msg(p))) {
        return Err(fail(
            "C18:Data field is not the field's own conversion",
            format!("convert_into produced a Data value that differs from the field-wise reference at {}", e),
            serde_json::to_string(&d).unwrap_or_default(),
        ));
    }
    // B. JSON round trip
    let js = match serde_json::to_value(&d) {
        Ok(j) => j,
        Err(e) => return Err(fail("C18:serde round trip of derived Data failed", format!("to JSON: {}", e), String::new())),
    };
    let want_js = v.json(env);
    if js != want_js {
        return Err(fail(
            "C18:serialized Data differs from the field-wise reference",
            format!("JSON of the Data value is {} but the field-wise reference (with forwarded serde attributes) is {}", js, want_js),
            js.to_string(),
        ));
    }
    let text = js.to_string();
    let d2: T::Data = match serde_json::from_str(&text) {
        Ok(x) => x,
        Err(e) => {
            return Err(fail("C18:serde round trip of derived Data failed", format!("from JSON {}: {}", text, e), text.clone()))
        }
    };
    let back = from_data::<M, T>(d2, Some(v.probes()), env)?;
    rep.bump("probe_calls_checked", v.probes());
    rep.bump("roundtrips_json", 1);
    if back != *expect {
        return Err(fail(
            "C18:round trip differs from field-wise reference",
            format!("JSON round trip gave {:?}, field-wise reference gives {:?}", back, expect),
            format!("{:?}", back),
        ));
    }
    // C. RON round trip
    if cfg.ron {
        let text = match ron::ser::to_string(&d) {
            Ok(t) => t,
            Err(e) => return Err(fail("C18:serde round trip of derived Data failed", format!("to RON: {}", e), String::new())),
        };
        let d3: T::Data = match ron::de::from_str(&text) {
            Ok(x) => x,
            Err(e) => {
                return Err(fail("C18:serde round trip of derived Data failed", format!("from RON {}: {}", text, e), text.clone()))
            }
        };
        let back = from_data::<M, T>(d3, Some(v.probes()), env)?;
        rep.bump("roundtrips_ron", 1);
        if back != *expect {
            return Err(fail(
                "C18:round trip differs from field-wise reference",
                format!("RON round trip gave {:?}, field-wise reference gives {:?}", back, expect),
                format!("{:?}", back),
            ));
        }
    }
    // D. forwarded attributes that only show when the serialized form is edited
    if deep {
        for p in v.attr_probes(env) {
            let mut j = js.clone();
            if !edit(&mut j, &p.path, p.key, &p.action) {
                // e.g. key legitimately absent (skip_serializing_if): nothing to edit
                continue;
            }
            let d4: T::Data = match serde_json::from_value(j.clone()) {
                Ok(x) => x,
                Err(e) => {
                    return Err(fail(
                        "C18:forwarded serde attribute has no effect",
                        format!("{}: deserializing {} failed: {}", p.what, j, e),
                        j.to_string(),
                    ))
                }
            };
            let back = from_data::<M, T>(d4, None, env)?;
            rep.bump("attr_probes_checked", 1);
            if back != p.expected {
                return Err(fail(
                    "C18:forwarded serde attribute has no effect",
                    format!("{}: got {:?}, reference {:?}", p.what, back, p.expected),
                    format!("{:?}", back),
                ));
            }
        }
    }
    Ok(())
}

pub fn run_type<M: Marker<Identifier = u64>, T: Case<M>>(t: &TypeInfo, env: &Env<M>, cfg: &Cfg, rep: &mut Rep) {
    for k in 0..cfg.values {
        if rep.violations.len() >= MAX_VIOLATIONS {
            return;
        }
        let mut r = Rng(mix(mix(cfg.seed, t.idx), k));
        let v = T::gen(&mut r, env);
        let expect = v.expect(env);
        rep.cases_run += 1;
        if k == 0 && rep.samples.len() < 3 && env.marker_name == "SimpleMarker" {
            rep.samples.push(json!({"type_idx": t.idx, "type": t.ty, "value": format!("{:?}", v),
                                    "expected_after_round_trip": format!("{:?}", expect)}));
        }
        if let Err(f) = one_value::<M, T>(&v, &expect, env, cfg, k < 8, rep) {
            rep.violations.push(json!({
                "type_idx": t.idx, "type_name": t.name, "type": t.ty, "value_idx": k, "marker": env.marker_name,
                "signature": f.signature, "msg": f.msg,
                "value": format!("{:?}", v), "expected": format!("{:?}", expect), "actual": f.actual,
            }));
            return; // one violation per type is enough
        }
    }
}

// ------------------------------------------------------------------ Component derive

pub fn storage_check<T: Component, S: 'static>(t: &TypeInfo, kind: &str, attr: &str, expected: &str, rep: &mut Rep) {
    rep.cases_run += 1;
    rep.bump(&format!("storage_checked_{}", kind), 1);
    let got = TypeId::of::<<T as Component>::Storage>();
    if got != TypeId::of::<S>() {
        rep.violations.push(json!({
            "type_idx": t.idx, "type_name": t.name, "type": t.ty, "value_idx": 0, "marker": "-",
            "signature": "C18:derived Component selects a different storage",
            "msg": format!("{} with `{}`: <{} as Component>::Storage is {} but {} was requested",
                           t.name, attr, t.ty, std::any::type_name::<<T as Component>::Storage>(), expected),
            "value": attr, "expected": expected, "actual": std::any::type_name::<<T as Component>::Storage>(),
        }));
    }
}
