#!/usr/bin/env python3
"""derivegen - runtime check of property C18 (derive macros behave as field-wise definitions).

  python3 derivegen.py --prop C18 --seed S --types N --values V --batches B --out RESULT.json
                       [--repo /repo] [--workdir DIR] [--keep] [--formats json|json,ron]
                       [--markers 1|2] [--profile dev|release] [--jobs J] [--emit-only]

From the seed it draws N type definitions from the grammar of shapes `#[derive(ConvertSaveload)]`
/ `#[derive(Component)]` accept, writes them into B binary targets of one scratch cargo package
together with a generator-written field-wise REFERENCE for every type (an impl of the `Case`
trait of support.rs; it never calls the derived code), builds the package against the specs tree
at --repo, runs every binary (values are drawn inside the Rust program from a SplitMix64 stream)
and merges the reports into RESULT.json (same keys as harness/src/report.rs::Report::to_json).

Exit 0: no violation.  Exit 1: violations (each has a replay file under /verif/replays).
Exit 2: nothing could be decided (tool failure that is not attributable to the tree under test).

A generated program that does not compile is reported as a violation with signature
"C18:generated program no longer compiles": the generator only emits shapes that compile on the
pinned tree (validated over many seeds), so a compile failure means the tree under test changed
what the macros accept or produce.
"""
import fcntl
import hashlib
import json
import os
import re
import shutil
import subprocess
import sys
import tempfile
import time
from concurrent.futures import ThreadPoolExecutor

HERE = os.path.dirname(os.path.abspath(__file__))
VERIF = os.path.dirname(HERE)
MASK = (1 << 64) - 1


# ----------------------------------------------------------------------------- rng

class Rng:
    """SplitMix64 (same stream as the Rust side's Rng)."""

    def __init__(self, seed):
        self.s = seed & MASK

    def next(self):
        self.s = (self.s + 0x9E3779B97F4A7C15) & MASK
        z = self.s
        z = ((z ^ (z >> 30)) * 0xBF58476D1CE4E5B9) & MASK
        z = ((z ^ (z >> 27)) * 0x94D049BB133111EB) & MASK
        return z ^ (z >> 31)

    def below(self, n):
        return self.next() % max(n, 1)

    def chance(self, percent):
        return self.below(100) < percent

    def choice(self, xs):
        return xs[self.below(len(xs))]

    def weighted(self, pairs):
        tot = sum(w for w, _ in pairs)
        k = self.below(tot)
        for w, x in pairs:
            if k < w:
                return x
            k -= w
        return pairs[-1][1]


def mix(a, b):
    return Rng((a ^ (b * 0xD6E8FEB86659FD93)) & MASK).next()


# ----------------------------------------------------------------------------- grammar: leaves

# (weight, canonical type, [spellings])  -- every canonical type has a leaf `Case` impl in support.rs
PLAIN = [
    (10, "u8", ["u8"]),
    (8, "u16", ["u16"]),
    (14, "u32", ["u32", "(u32)", "std::primitive::u32"]),
    (8, "u64", ["u64"]),
    (8, "i32", ["i32"]),
    (3, "i64", ["i64"]),
    (8, "bool", ["bool"]),
    (2, "char", ["char"]),
    (10, "String", ["String", "std::string::String"]),
    (7, "Vec<u32>", ["Vec<u32>", "std::vec::Vec<u32>"]),
    (2, "Vec<String>", ["Vec<String>"]),
    (2, "Vec<(u8, u8)>", ["Vec<(u8, u8)>"]),
    (7, "Option<u16>", ["Option<u16>"]),
    (2, "Option<String>", ["Option<String>"]),
    (6, "(u8, u8)", ["(u8, u8)"]),
    (2, "(u32, String)", ["(u32, String)"]),
    (3, "[u8; 3]", ["[u8; 3]"]),
    (1, "[u16; 2]", ["[u16; 2]"]),
    (1, "Box<u32>", ["Box<u32>"]),
    (3, "Rec", ["Rec", "support::Rec"]),
    (2, "Kind", ["Kind"]),
]
ENTITY_SPELLINGS = ["Entity", "Entity", "Entity", "specs::Entity", "specs::world::Entity", "::specs::Entity", "Ent"]
PROBE_SPELLINGS = ["Probe", "Probe", "support::Probe", "crate::support::Probe"]

FIELD_COUNT_W = [(10, 1), (20, 2), (20, 3), (15, 4), (10, 5), (6, 6), (4, 7), (4, 8), (3, 9), (3, 10), (2, 11), (3, 12)]
VARIANT_COUNT_W = [(5, 1), (25, 2), (30, 3), (20, 4), (10, 5), (10, 6)]
VFIELD_COUNT_W = [(30, 1), (30, 2), (20, 3), (12, 4), (8, 5)]

FIELD_NAMES = ["a", "b", "e", "id", "pos", "owner", "target", "hp", "name", "tags", "x", "y", "next", "prev", "data",
               "value", "count", "flag", "left", "right", "r#type", "r#ref", "r#match"]

# storage kind -> [(attribute text or None, expected storage with {T})]
STORAGES = {
    "vec": [("VecStorage", "specs::storage::VecStorage<{T}>"),
            ("VecStorage<Self>", "specs::storage::VecStorage<{T}>"),
            ("specs::VecStorage", "specs::storage::VecStorage<{T}>"),
            ("::specs::VecStorage", "specs::storage::VecStorage<{T}>"),
            ("specs::storage::VecStorage<Self>", "specs::storage::VecStorage<{T}>")],
    "dense": [("DenseVecStorage", "specs::storage::DenseVecStorage<{T}>"),
              ("DenseVecStorage<Self>", "specs::storage::DenseVecStorage<{T}>"),
              ("specs::storage::DenseVecStorage", "specs::storage::DenseVecStorage<{T}>")],
    "hashmap": [("HashMapStorage", "specs::storage::HashMapStorage<{T}>"),
                ("HashMapStorage<Self>", "specs::storage::HashMapStorage<{T}>"),
                ("specs::storage::HashMapStorage", "specs::storage::HashMapStorage<{T}>")],
    "btree": [("BTreeStorage", "specs::storage::BTreeStorage<{T}>"),
              ("BTreeStorage<Self>", "specs::storage::BTreeStorage<{T}>"),
              ("specs::storage::BTreeStorage", "specs::storage::BTreeStorage<{T}>")],
    "flagged": [("FlaggedStorage<Self, VecStorage<Self>>",
                 "specs::storage::FlaggedStorage<{T}, specs::storage::VecStorage<{T}>>"),
                ("FlaggedStorage<Self, DenseVecStorage<Self>>",
                 "specs::storage::FlaggedStorage<{T}, specs::storage::DenseVecStorage<{T}>>"),
                ("FlaggedStorage<Self>", "specs::storage::FlaggedStorage<{T}, specs::storage::DenseVecStorage<{T}>>"),
                ("FlaggedStorage", "specs::storage::FlaggedStorage<{T}, specs::storage::DenseVecStorage<{T}>>"),
                ("specs::FlaggedStorage<Self, specs::storage::HashMapStorage<Self>>",
                 "specs::storage::FlaggedStorage<{T}, specs::storage::HashMapStorage<{T}>>"),
                ("specs::storage::DerefFlaggedStorage<Self, VecStorage<Self>>",
                 "specs::storage::DerefFlaggedStorage<{T}, specs::storage::VecStorage<{T}>>")],
    "none": [(None, "specs::storage::DenseVecStorage<{T}>")],
    # need Default
    "null": [("NullStorage", "specs::storage::NullStorage<{T}>"),
             ("NullStorage<Self>", "specs::storage::NullStorage<{T}>"),
             ("specs::NullStorage", "specs::storage::NullStorage<{T}>")],
    "defaultvec": [("DefaultVecStorage", "specs::storage::DefaultVecStorage<{T}>"),
                   ("DefaultVecStorage<Self>", "specs::storage::DefaultVecStorage<{T}>"),
                   ("specs::storage::DefaultVecStorage", "specs::storage::DefaultVecStorage<{T}>")],
}
ANY_STORAGE_W = [(18, "vec"), (14, "dense"), (12, "hashmap"), (10, "btree"), (14, "flagged"), (20, "none")]


class Field:
    def __init__(self):
        self.name = None        # identifier, or None in tuple position
        self.idx = 0
        self.ty = ""            # as spelled in the definition
        self.base = ""          # canonical type (for "same type" and shape hashes)
        self.kind = "plain"     # plain | entity | probe | nested | param | opaque
        self.skip = False       # #[convert_save_load_skip_convert]
        self.rename = None
        self.alias = None
        self.default = False
        self.skip_none = False  # serde(skip_serializing_if = "Option::is_none", default)
        self.extra = []         # attributes that are not forwarded-serde (doc comments, allow, forwarded allow/doc)
        self.split_attrs = False
        self.vis = "pub "
        self.macro_ty = None    # `$tN` when the definition is produced by a macro_rules! expansion

    def key(self):
        # serde names a raw identifier without the r# prefix
        return self.rename or (self.name[2:] if self.name.startswith("r#") else self.name)

    def has_fwd(self):
        return bool(self.rename or self.alias or self.default or self.skip_none or self.kind == "opaque"
                    or any("convert_save_load_attr" in e for e in self.extra))


class Variant:
    def __init__(self, name, kind):
        self.name = name
        self.kind = kind        # unit | tuple | struct
        self.fields = []
        self.rename = None
        self.alias = None
        self.extra = []

    def tag(self):
        return self.rename or self.name


class TypeDef:
    def __init__(self, idx, name, kind):
        self.idx = idx
        self.name = name
        self.kind = kind        # named | tuple | enum
        self.params = []        # generic parameter names
        self.bound_style = 0
        self.fields = []
        self.variants = []
        self.depth = 1
        self.own_entity = False     # Entity reachable without looking at generic arguments
        self.own_probe = False
        self.insts = []             # for generic defs: list of (type expr, [arg dicts])
        self.storage = None         # (kind, attr, expected template) when Component is derived too
        self.derive_order = 0
        self.source = ""

    def all_field_groups(self):
        if self.kind == "enum":
            return [v.fields for v in self.variants]
        return [self.fields]

    def all_fields(self):
        return [f for g in self.all_field_groups() for f in g]


class CompDef:
    """Component-only definition (part B)."""

    def __init__(self, idx, name):
        self.idx = idx
        self.name = name
        self.source = ""
        self.checks = []    # (type expr, kind, attr text, expected storage)
        self.generic = False


# ----------------------------------------------------------------------------- generator

class BatchGen:
    def __init__(self, seed, batch, first_idx, n_types, n_comps):
        self.r = Rng(mix(mix(seed, 0xBA7C4), batch))
        self.batch = batch
        self.first_idx = first_idx
        self.n_types = n_types
        self.n_comps = n_comps
        self.defs = []
        self.comps = []
        # concrete, usable-as-field-type generated types: dict(ty, depth, entity, probe)
        self.registry = []

    # ---- field types

    def pick_plain(self, f):
        base, spellings = self.r.weighted([(w, (b, s)) for w, b, s in PLAIN])
        f.kind, f.base, f.ty = "plain", base, self.r.choice(spellings)

    def pick_entity(self, f):
        f.kind, f.base, f.ty = "entity", "Entity", self.r.choice(ENTITY_SPELLINGS)

    def pick_probe(self, f):
        f.kind, f.base, f.ty = "probe", "Probe", self.r.choice(PROBE_SPELLINGS)

    def pick_nested(self, f, max_depth):
        cands = [c for c in self.registry if c["depth"] <= max_depth]
        if not cands:
            return False
        # prefer deep and entity-carrying candidates a little
        c = self.r.weighted([(1 + c["depth"] + (2 if c["entity"] else 0), c) for c in cands])
        f.kind, f.base, f.ty = "nested", c["ty"], c["ty"]
        f.ref = c
        return True

    def pick_type(self, f, params, allow_nested):
        opts = [(28, "entity"), (40, "plain"), (9, "probe")]
        if allow_nested and self.registry:
            opts.append((18, "nested"))
        if params:
            opts.append((16, "param"))
        k = self.r.weighted(opts)
        if k == "entity":
            self.pick_entity(f)
        elif k == "probe":
            self.pick_probe(f)
        elif k == "nested":
            if not self.pick_nested(f, 2):
                self.pick_plain(f)
        elif k == "param":
            p = self.r.choice(params)
            f.kind, f.base, f.ty = "param", p, p
        else:
            self.pick_plain(f)

    def make_fields(self, n, named, params, allow_nested, used_names=None):
        fields = []
        names = list(FIELD_NAMES)
        for i in range(n):
            f = Field()
            f.idx = i
            if named:
                if self.r.chance(60) and names:
                    f.name = names.pop(self.r.below(len(names)))
                else:
                    f.name = "f%d" % i
            self.pick_type(f, params, allow_nested)
            f.vis = self.r.weighted([(6, "pub "), (2, ""), (1, "pub(crate) ")])
            fields.append(f)
        # plant a pair of same-typed fields (what makes swapped fields visible)
        if n >= 2 and self.r.chance(55):
            src = self.r.choice(fields)
            dst = self.r.choice([f for f in fields if f is not src])
            dst.kind, dst.base, dst.ty = src.kind, src.base, src.ty
            if src.kind == "nested":
                dst.ref = src.ref
            if src.kind == "entity":
                dst.ty = self.r.choice(ENTITY_SPELLINGS)
        return fields

    def decorate(self, fields, named, in_enum_tuple=False):
        """skip markers, forwarded attributes and pass-through attributes"""
        for f in fields:
            if f.kind == "plain" and self.r.chance(14):
                f.skip = True
            if named:
                if self.r.chance(12):
                    f.rename = "r%d%s" % (f.idx, self.r.choice(["Key", "_renamed", "X", "camelCase"]))
                if self.r.chance(8):
                    f.alias = "al%d_%s" % (f.idx, self.r.choice(["old", "legacy", "v1"]))
                if f.kind == "plain" and f.base.startswith("Option<") and self.r.chance(35):
                    f.skip_none = True
                elif f.kind == "plain" and self.r.chance(12):
                    f.default = True
            if self.r.chance(8):
                f.extra.append(self.r.choice(["/// a documented field", "#[doc = \"doc attribute\"]",
                                              "#[allow(dead_code)]"]))
            if self.r.chance(5):
                f.extra.append(self.r.choice(["#[convert_save_load_attr(allow(dead_code))]",
                                              "#[convert_save_load_attr(doc = \"forwarded doc\")]"]))
            f.split_attrs = self.r.chance(50)

    def maybe_opaque(self, fields):
        if self.r.chance(5) and len(fields) < 12:
            f = Field()
            f.idx = len(fields)
            f.name = "opaque%d" % f.idx
            f.kind, f.base, f.ty = "opaque", "Opaque", self.r.choice(["Opaque", "support::Opaque"])
            f.skip = True
            f.vis = "pub "
            fields.insert(self.r.below(len(fields) + 1), f)
            for i, g in enumerate(fields):
                g.idx = i

    # ---- definitions

    def gen_def(self, idx):
        r = self.r
        kind = r.weighted([(36, "named"), (26, "tuple"), (38, "enum")])
        generic = r.chance(22)
        prefix = {"named": "S", "tuple": "T", "enum": "E"}[kind]
        d = TypeDef(idx, ("G" if generic else "") + prefix + str(idx), kind)
        if generic:
            d.params = r.weighted([(3, ["T"]), (1, ["T", "U"]), (1, ["A", "B"])])
            d.bound_style = r.below(4)
        allow_nested = True
        if kind in ("named", "tuple"):
            n = r.weighted(FIELD_COUNT_W)
            n = max(n, len(d.params))
            d.fields = self.make_fields(n, kind == "named", d.params, allow_nested)
            self.decorate(d.fields, kind == "named")
            if kind == "named":
                self.maybe_opaque(d.fields)
        else:
            nv = r.weighted(VARIANT_COUNT_W)
            vnames = ["Alpha", "Beta", "Gamma", "Delta", "Eps", "Zeta"]
            for vi in range(nv):
                vk = r.weighted([(25, "unit"), (40, "tuple"), (35, "struct")])
                v = Variant(vnames[vi] if r.chance(50) else "V%d" % vi, vk)
                if vk != "unit":
                    n = r.weighted(VFIELD_COUNT_W)
                    v.fields = self.make_fields(n, vk == "struct", d.params, allow_nested)
                    self.decorate(v.fields, vk == "struct")
                    if vk == "struct":
                        self.maybe_opaque(v.fields)
                if r.chance(12):
                    v.rename = "%s_renamed" % v.name
                if r.chance(6):
                    v.alias = "%s_alias" % v.name
                if r.chance(6):
                    v.extra.append("/// a documented variant")
                d.variants.append(v)
            if all(v.kind == "unit" for v in d.variants):
                v = d.variants[r.below(nv)]
                v.kind = r.choice(["tuple", "struct"])
                v.fields = self.make_fields(r.weighted(VFIELD_COUNT_W), v.kind == "struct", d.params, allow_nested)
                self.decorate(v.fields, v.kind == "struct")
        self.fix_constraints(d)
        self.finish_def(d)
        return d

    def fix_constraints(self, d):
        r = self.r
        fields = d.all_fields()
        # every generic parameter must be used by a (non-skipped) field
        for p in d.params:
            if any(f.kind == "param" and f.base == p for f in fields):
                continue
            cands = [f for f in fields if f.kind in ("plain", "probe", "entity", "nested")]
            if cands:
                f = r.choice(cands)
            else:
                # no field left that is not the only use of another parameter: add one
                if d.kind == "enum":
                    v = [v for v in d.variants if v.kind != "unit"][0]
                    group, named = v.fields, v.kind == "struct"
                else:
                    group, named = d.fields, d.kind == "named"
                f = Field()
                f.idx = len(group)
                f.name = ("g%d" % f.idx) if named else None
                f.vis = "pub "
                group.append(f)
                fields = d.all_fields()
            f.kind, f.base, f.ty = "param", p, p
            f.skip = f.default = f.skip_none = False
        # attributes needing trait impls of the field type only on plain fields
        for f in fields:
            if f.kind != "plain":
                f.default = f.skip_none = False
                if f.kind != "opaque":
                    f.skip = False
        # the Data type must mention the marker parameter: at least one converted field
        if not any(not f.skip for f in fields):
            f = r.choice([f for f in fields if f.kind != "opaque"])
            f.skip = False
        # often make sure an Entity is reachable (non-triviality) without forcing it always
        if r.chance(45) and not any(f.kind == "entity" for f in fields):
            cands = [f for f in fields if f.kind == "plain" and not f.skip]
            if cands:
                f = r.choice(cands)
                self.pick_entity(f)
                f.default = f.skip_none = False
        # unique field names per group, unique serialized keys
        for g in d.all_field_groups():
            seen = set()
            for f in g:
                if f.name is not None:
                    while f.name in seen:
                        f.name = f.name + "_"
                    seen.add(f.name)
            keys = set(f.name.replace("r#", "") for f in g if f.name)
            for f in g:
                if f.rename in keys:
                    f.rename = None
        if d.kind == "enum":
            seen = set()
            for v in d.variants:
                while v.name in seen:
                    v.name += "x"
                seen.add(v.name)

    def finish_def(self, d):
        r = self.r
        fields = d.all_fields()
        depth = 1
        for f in fields:
            if f.kind == "nested":
                depth = max(depth, f.ref["depth"] + 1)
        d.depth = depth
        d.own_entity = any(f.kind == "entity" or (f.kind == "nested" and f.ref["entity"]) for f in fields)
        d.own_probe = any(f.kind == "probe" or (f.kind == "nested" and f.ref["probe"]) for f in fields)
        if d.params:
            n_inst = r.weighted([(3, 1), (2, 2)])
            seen = set()
            for _ in range(n_inst):
                args = []
                for _p in d.params:
                    a = Field()
                    k = r.weighted([(35, "entity"), (35, "plain"), (12, "probe"), (18, "nested")])
                    if k == "entity":
                        self.pick_entity(a)
                    elif k == "probe":
                        self.pick_probe(a)
                    elif k == "nested" and self.pick_nested(a, 3 - d.depth if d.depth < 3 else 0):
                        pass
                    else:
                        self.pick_plain(a)
                        a.ty = a.base if a.ty.startswith("(u32)") else a.ty
                    args.append(a)
                ty = "%s<%s>" % (d.name, ", ".join(a.ty for a in args))
                canon = "%s<%s>" % (d.name, ", ".join(a.base for a in args))
                if canon in seen:
                    continue
                seen.add(canon)
                idepth = max([d.depth] + [a.ref["depth"] + 1 for a in args if a.kind == "nested"])
                ent = d.own_entity or any(a.kind == "entity" or (a.kind == "nested" and a.ref["entity"]) for a in args)
                prb = d.own_probe or any(a.kind == "probe" or (a.kind == "nested" and a.ref["probe"]) for a in args)
                d.insts.append({"ty": ty, "args": args, "depth": idepth, "entity": ent, "probe": prb})
                self.registry.append({"ty": ty, "depth": idepth, "entity": ent, "probe": prb})
        else:
            self.registry.append({"ty": d.name, "depth": d.depth, "entity": d.own_entity, "probe": d.own_probe})
            if r.chance(60):
                kind = r.weighted(ANY_STORAGE_W)
                attr, exp = r.choice(STORAGES[kind])
                d.storage = (kind, attr, exp)
        d.derive_order = r.below(4)

    def gen_comp(self, idx, forced=None):
        r = self.r
        c = CompDef(idx, "C%d" % idx)
        shape = forced or r.weighted([(20, "null"), (20, "defaultvec"), (40, "generic"), (10, "enum"), (10, "plainstruct")])
        derives = ["Component", "Debug", "Clone"]
        body = ""
        params = ""
        insts = [c.name]
        if shape == "null":
            kind = r.weighted([(7, "null"), (1, "vec"), (1, "none"), (1, "hashmap")])
            derives.append("Default")
            body = r.choice([";", " {}", "();"])
        elif shape == "defaultvec":
            kind = r.weighted([(7, "defaultvec"), (1, "dense"), (1, "none"), (1, "btree")])
            derives.append("Default")
            body = r.choice([" { pub a: u32, pub b: String }", "(pub u64, pub bool);", " { pub v: Vec<u32> }"])
        elif shape == "enum":
            kind = r.weighted(ANY_STORAGE_W)
            body = " { A, B(u32), C { x: u8 } }"
        elif shape == "plainstruct":
            kind = r.weighted(ANY_STORAGE_W)
            body = r.choice(["(pub f32, pub f32, pub f32);", " { pub x: i32, pub y: i32 }", "(pub specs::Entity);"])
        else:
            c.generic = True
            kind = r.weighted(ANY_STORAGE_W + [(10, "defaultvec")])
            style = r.below(3)
            need = "Send + Sync + 'static" + (" + Default" if kind == "defaultvec" else "") + " + std::fmt::Debug + Clone"
            if kind == "defaultvec":
                derives.append("Default")
            two = r.chance(25)
            ps = ["T", "U"] if two else ["T"]
            if style == 0:
                params = "<%s>" % ", ".join("%s: %s" % (p, need) for p in ps)
                where = ""
            else:
                params = "<%s>" % ", ".join(ps)
                where = " where " + ", ".join("%s: %s" % (p, need) for p in ps)
            if r.chance(50):
                body = "(%s)%s;" % (", ".join("pub " + p for p in ps), where)
            else:
                body = "%s { %s }" % (where, ", ".join("pub v%d: %s" % (i, p) for i, p in enumerate(ps)))
            args_pool = ["u32", "String", "Vec<u8>", "(u8, u8)", "bool", "Option<u16>", "u64"]
            insts = []
            for _ in range(r.weighted([(2, 1), (3, 2)])):
                t = "%s<%s>" % (c.name, ", ".join(r.choice(args_pool) for _ in ps))
                if t not in insts:
                    insts.append(t)
        is_enum = shape == "enum"
        attr, exp = r.choice(STORAGES[kind])
        lines = ["#[derive(%s)]" % ", ".join(derives)]
        if attr is not None:
            lines.append("#[storage(%s)]" % attr)
        lines.append("pub %s %s%s%s" % ("enum" if is_enum else "struct", c.name, params, body))
        c.source = "\n".join(lines)
        for t in insts:
            c.checks.append((t, kind, attr, exp.replace("{T}", t)))
        return c

    def generate(self):
        idx = self.first_idx
        for _ in range(self.n_types):
            self.defs.append(self.gen_def(idx))
            idx += 1
        forced = ["null", "defaultvec", "generic", "generic"]
        for k in range(self.n_comps):
            self.comps.append(self.gen_comp(idx, forced[k] if k < len(forced) else None))
            idx += 1
        return idx


# ----------------------------------------------------------------------------- emission

def rs_str(s):
    return json.dumps(s)


def field_attr_lines(f):
    out = list(f.extra)
    if f.skip:
        out.append("#[convert_save_load_skip_convert]")
    fwd = []
    if f.kind == "opaque":
        fwd.append("skip")
        fwd.append("default")
    if f.rename:
        fwd.append("rename = %s" % rs_str(f.rename))
    if f.alias:
        fwd.append("alias = %s" % rs_str(f.alias))
    if f.skip_none:
        fwd.append("skip_serializing_if = \"Option::is_none\"")
        fwd.append("default")
    if f.default:
        fwd.append("default")
    if fwd:
        if f.split_attrs and len(fwd) > 1:
            for a in fwd:
                out.append("#[convert_save_load_attr(serde(%s))]" % a)
        else:
            out.append("#[convert_save_load_attr(serde(%s))]" % ", ".join(fwd))
    return out


def emit_fields_named(fields, indent, with_vis):
    lines = []
    for f in fields:
        for a in field_attr_lines(f):
            lines.append(indent + a)
        lines.append("%s%s%s: %s," % (indent, f.vis if with_vis else "", f.name, f.macro_ty or f.ty))
    return lines


def emit_fields_tuple(fields, indent, with_vis):
    lines = []
    for f in fields:
        for a in field_attr_lines(f):
            lines.append(indent + a)
        lines.append("%s%s%s," % (indent, f.vis if with_vis else "", f.macro_ty or f.ty))
    return lines


def generics_decl(d):
    """(text after the name, where clause)"""
    if not d.params:
        return "", ""
    bounds = ["", "Clone", "Clone + std::fmt::Debug", "PartialEq"][d.bound_style]
    # one generic definition in three gives its last parameter a default type (`struct S<T = Entity>`):
    # defaults may appear on the type but not on the impls the derives generate
    import zlib
    h = zlib.crc32(("dflt|" + d.name + "|" + ",".join(d.params)).encode())
    d.param_default = ["u32", "Entity"][(h >> 8) % 2] if h % 3 == 0 else None

    def dflt(i):
        return " = %s" % d.param_default if d.param_default and i == len(d.params) - 1 else ""
    if d.bound_style == 0 or not bounds:
        return "<%s>" % ", ".join(p + dflt(i) for i, p in enumerate(d.params)), ""
    if d.bound_style == 3:
        return ("<%s>" % ", ".join(p + dflt(i) for i, p in enumerate(d.params)),
                " where " + ", ".join("%s: %s" % (p, bounds) for p in d.params))
    return "<%s>" % ", ".join("%s: %s%s" % (p, bounds, dflt(i)) for i, p in enumerate(d.params)), ""


def emit_def(d):
    # One non-generic definition in four reaches the derive through a `macro_rules!` expansion with
    # `$t:ty` fragments for its field types (the tokens then arrive wrapped in invisible groups):
    # the shape is the same, so the derived code has to be the same.
    import zlib
    fields = d.all_fields()
    d.via_macro = bool(fields) and not d.params and zlib.crc32((d.name + "|" + "|".join(f.ty for f in fields)).encode()) % 4 == 0
    macro_args = []
    if d.via_macro:
        for f in fields:
            if f.ty not in macro_args:
                macro_args.append(f.ty)
            f.macro_ty = "$t%d" % macro_args.index(f.ty)
    derives = ["ConvertSaveload", "Clone", "PartialEq", "Debug"]
    if d.storage:
        derives.insert([0, 1, 4, 2][d.derive_order], "Component")
    lines = []
    if d.derive_order % 2 == 0:
        lines.append("#[derive(%s)]" % ", ".join(derives))
    else:
        lines.append("#[derive(%s)]" % ", ".join(derives[:2]))
        lines.append("#[derive(%s)]" % ", ".join(derives[2:]))
    if d.storage and d.storage[1] is not None:
        lines.append("#[storage(%s)]" % d.storage[1])
    gen, where = generics_decl(d)
    if d.kind == "named":
        lines.append("pub struct %s%s%s {" % (d.name, gen, where))
        lines += emit_fields_named(d.fields, "    ", True)
        lines.append("}")
    elif d.kind == "tuple":
        lines.append("pub struct %s%s(" % (d.name, gen))
        lines += emit_fields_tuple(d.fields, "    ", True)
        lines.append(")%s;" % where)
    else:
        lines.append("pub enum %s%s%s {" % (d.name, gen, where))
        for v in d.variants:
            for a in v.extra:
                lines.append("    " + a)
            fwd = []
            if v.rename:
                fwd.append("rename = %s" % rs_str(v.rename))
            if v.alias:
                fwd.append("alias = %s" % rs_str(v.alias))
            if fwd:
                lines.append("    #[convert_save_load_attr(serde(%s))]" % ", ".join(fwd))
            if v.kind == "unit":
                lines.append("    %s," % v.name)
            elif v.kind == "tuple":
                lines.append("    %s(" % v.name)
                lines += emit_fields_tuple(v.fields, "        ", False)
                lines.append("    ),")
            else:
                lines.append("    %s {" % v.name)
                lines += emit_fields_named(v.fields, "        ", False)
                lines.append("    },")
        lines.append("}")
    if d.via_macro:
        head = "macro_rules! def_%s {\n    (%s) => {" % (d.name, ", ".join("$t%d:ty" % i for i in range(len(macro_args))))
        lines = [head] + ["        " + l for l in lines] + ["    };", "}", "def_%s!(%s);" % (d.name, ", ".join(macro_args))]
        for f in fields:
            f.macro_ty = None
    d.source = "\n".join(lines)
    return d.source


def gen_expr(f):
    if f.kind == "opaque":
        return "Opaque(r.next() as u32)"
    return "Case::<M>::gen(r, env)"


def expect_expr(f, acc):
    if f.kind == "opaque":
        return "Default::default()"
    return "Case::<M>::expect(%s, env)" % acc


def check_stmt(f, label, acc, dacc):
    if f.kind == "opaque":
        return "at(%s, same(%s, %s))?;" % (rs_str(label), acc, dacc)
    return "at(%s, Case::<M>::check_data(%s, %s, env))?;" % (rs_str(label), acc, dacc)


def count_expr(f, acc, what):
    if f.kind == "opaque":
        return None
    if f.skip and what == "probes":
        return None     # a skipped field is not converted (only plain types can be skipped anyway)
    return "Case::<M>::%s(%s)" % (what, acc)


def json_entry(f, acc, optacc):
    """entry for obj(): Option<(&str, Value)>"""
    if f.kind == "opaque":
        return "None"
    e = "Some((%s, Case::<M>::json(%s, env)))" % (rs_str(f.key()), acc)
    if f.skip_none:
        return "if %s.is_none() { None } else { %s }" % (optacc, e)
    return e


def json_fields(fields, named, accs, optaccs=None):
    """JSON of a group of fields in serde's externally visible form."""
    optaccs = optaccs or accs
    if named:
        return "obj(vec![%s])" % ", ".join(json_entry(f, a, o) for f, a, o in zip(fields, accs, optaccs))
    if len(fields) == 1:
        return "Case::<M>::json(%s, env)" % accs[0]
    return "Value::Array(vec![%s])" % ", ".join("Case::<M>::json(%s, env)" % a for a in accs)


def emit_case_impl(d):
    n = d.name
    if d.params:
        head = "impl<M: Marker, %s> Case<M> for %s<%s>" % (", ".join("%s: Case<M>" % p for p in d.params), n,
                                                          ", ".join(d.params))
        dname = "%sSaveloadData" % n
    else:
        head = "impl<M: Marker> Case<M> for %s" % n
        dname = "%sSaveloadData" % n
    L = [head + " {"]
    probes = []
    if d.kind in ("named", "tuple"):
        named = d.kind == "named"
        acc = [("self.%s" % f.name) if named else ("self.%d" % f.idx) for f in d.fields]
        dacc = [("d.%s" % f.name) if named else ("d.%d" % f.idx) for f in d.fields]
        if named:
            ctor = lambda exprs: "%s { %s }" % (n, ", ".join("%s: %s" % (f.name, e) for f, e in zip(d.fields, exprs)))
        else:
            ctor = lambda exprs: "%s(%s)" % (n, ", ".join(exprs))
        L.append("    fn gen(r: &mut Rng, env: &Env<M>) -> Self {")
        # evaluate in field order (struct literal fields are evaluated in written order)
        L.append("        " + ctor([gen_expr(f) for f in d.fields]))
        L.append("    }")
        L.append("    fn expect(&self, env: &Env<M>) -> Self {")
        L.append("        " + ctor([expect_expr(f, "&" + a) for f, a in zip(d.fields, acc)]))
        L.append("    }")
        L.append("    fn check_data(&self, d: &<Self as ConvertSaveload<M>>::Data, env: &Env<M>) -> Result<(), String> {")
        for f, a, da in zip(d.fields, acc, dacc):
            L.append("        " + check_stmt(f, f.name or str(f.idx), "&" + a, "&" + da))
        L.append("        Ok(())")
        L.append("    }")
        for what in ("probes", "ents"):
            terms = [count_expr(f, "&" + a, what) for f, a in zip(d.fields, acc)]
            L.append("    fn %s(&self) -> u64 {" % what)
            L.append("        0" + "".join(" + " + t for t in terms if t))
            L.append("    }")
        L.append("    fn json(&self, env: &Env<M>) -> Value {")
        L.append("        " + json_fields(d.fields, named, ["&" + a for a in acc], acc))
        L.append("    }")
        if named:
            for f in d.fields:
                if f.default or f.skip_none:
                    probes.append("        { let mut x = Case::<M>::expect(self, env); x.%s = Default::default(); "
                                  "out.push(AttrProbe { what: %s, path: vec![], key: %s, action: Action::Remove, expected: x }); }"
                                  % (f.name, rs_str("%s.%s: forwarded serde(default), key removed" % (n, f.name)),
                                     rs_str(f.key())))
                if f.alias and f.kind != "opaque":
                    probes.append("        out.push(AttrProbe { what: %s, path: vec![], key: %s, action: Action::RenameTo(%s), "
                                  "expected: Case::<M>::expect(self, env) });"
                                  % (rs_str("%s.%s: forwarded serde(alias), key renamed to the alias" % (n, f.name)),
                                     rs_str(f.key()), rs_str(f.alias)))
    else:
        def pat(v, prefix, ty):
            if v.kind == "unit":
                return "%s::%s" % (ty, v.name)
            if v.kind == "tuple":
                return "%s::%s(%s)" % (ty, v.name, ", ".join("%s%d" % (prefix, f.idx) for f in v.fields))
            return "%s::%s { %s }" % (ty, v.name, ", ".join("%s: %s%d" % (f.name, prefix, f.idx) for f in v.fields))

        def ctor(v, exprs):
            if v.kind == "unit":
                return "%s::%s" % (n, v.name)
            if v.kind == "tuple":
                return "%s::%s(%s)" % (n, v.name, ", ".join(exprs))
            return "%s::%s { %s }" % (n, v.name, ", ".join("%s: %s" % (f.name, e) for f, e in zip(v.fields, exprs)))

        L.append("    fn gen(r: &mut Rng, env: &Env<M>) -> Self {")
        L.append("        match r.below(%d) {" % len(d.variants))
        for i, v in enumerate(d.variants):
            arm = "_" if i == len(d.variants) - 1 else str(i)
            L.append("            %s => %s," % (arm, ctor(v, [gen_expr(f) for f in v.fields])))
        L.append("        }")
        L.append("    }")
        L.append("    fn expect(&self, env: &Env<M>) -> Self {")
        L.append("        match self {")
        for v in d.variants:
            L.append("            %s => %s," % (pat(v, "a", n), ctor(v, [expect_expr(f, "a%d" % f.idx) for f in v.fields])))
        L.append("        }")
        L.append("    }")
        L.append("    fn check_data(&self, d: &<Self as ConvertSaveload<M>>::Data, env: &Env<M>) -> Result<(), String> {")
        L.append("        match (self, d) {")
        for v in d.variants:
            L.append("            (%s, %s) => {" % (pat(v, "a", n), pat(v, "d", dname)))
            for f in v.fields:
                L.append("                " + check_stmt(f, "%s.%s" % (v.name, f.name or f.idx), "a%d" % f.idx, "d%d" % f.idx))
            L.append("                Ok(())")
            L.append("            }")
        L.append("            _ => Err(\"Data value is a different variant than the value converted\".to_string()),")
        L.append("        }")
        L.append("    }")
        for what in ("probes", "ents"):
            L.append("    fn %s(&self) -> u64 {" % what)
            L.append("        match self {")
            for v in d.variants:
                terms = [count_expr(f, "a%d" % f.idx, what) for f in v.fields]
                L.append("            %s => 0%s," % (pat(v, "a", n), "".join(" + " + t for t in terms if t)))
            L.append("        }")
            L.append("    }")
        L.append("    fn json(&self, env: &Env<M>) -> Value {")
        L.append("        match self {")
        for v in d.variants:
            if v.kind == "unit":
                L.append("            %s => Value::String(%s.to_string())," % (pat(v, "a", n), rs_str(v.tag())))
            else:
                inner = json_fields(v.fields, v.kind == "struct", ["a%d" % f.idx for f in v.fields])
                L.append("            %s => tagged(%s, %s)," % (pat(v, "a", n), rs_str(v.tag()), inner))
        L.append("        }")
        L.append("    }")
        for v in d.variants:
            if v.alias:
                probes.append("        if let %s = self { out.push(AttrProbe { what: %s, path: vec![], key: %s, "
                              "action: Action::RenameTo(%s), expected: Case::<M>::expect(self, env) }); }"
                              % (pat(v, "_a", n) if v.kind != "unit" else "%s::%s" % (n, v.name),
                                 rs_str("%s::%s: forwarded serde(alias) on the variant" % (n, v.name)),
                                 rs_str(v.tag()), rs_str(v.alias)))
            if v.kind != "struct":
                continue
            for f in v.fields:
                if f.default or f.skip_none:
                    probes.append("        if let %s::%s { .. } = self { let mut x = Case::<M>::expect(self, env); "
                                  "if let %s::%s { %s: ref mut slot, .. } = x { *slot = Default::default(); } "
                                  "out.push(AttrProbe { what: %s, path: vec![%s], key: %s, action: Action::Remove, expected: x }); }"
                                  % (n, v.name, n, v.name, f.name,
                                     rs_str("%s::%s.%s: forwarded serde(default), key removed" % (n, v.name, f.name)),
                                     rs_str(v.tag()), rs_str(f.key())))
                if f.alias and f.kind != "opaque":
                    probes.append("        if let %s::%s { .. } = self { out.push(AttrProbe { what: %s, path: vec![%s], key: %s, "
                                  "action: Action::RenameTo(%s), expected: Case::<M>::expect(self, env) }); }"
                                  % (n, v.name,
                                     rs_str("%s::%s.%s: forwarded serde(alias), key renamed" % (n, v.name, f.name)),
                                     rs_str(v.tag()), rs_str(f.key()), rs_str(f.alias)))
    if probes:
        L.append("    fn attr_probes(&self, env: &Env<M>) -> Vec<AttrProbe<Self>> {")
        L.append("        let mut out = Vec::new();")
        L += probes
        L.append("        out")
        L.append("    }")
    L.append("}")
    return "\n".join(L)


HEADER = """// generated by derivegen.py -- seed {seed} batch {batch}
#![allow(dead_code, unused_imports, unused_parens, unused_variables, unused_mut, unreachable_patterns)]
#![allow(non_snake_case, non_camel_case_types, clippy::all)]

#[path = "../../support.rs"]
mod support;

use serde::{{Deserialize, Serialize}};
use serde_json::Value;
use specs::saveload::{{ConvertSaveload, Marker}};
use specs::storage::BTreeStorage;
use specs::ConvertSaveload; // the derive macro (macro namespace); the trait comes from specs::saveload
use specs::{{Component, DefaultVecStorage, DenseVecStorage, Entity, FlaggedStorage, HashMapStorage, NullStorage, VecStorage}};
use support::*;
"""


def emit_batch(g, seed, markers):
    out = [HEADER.format(seed=seed, batch=g.batch)]
    out.append("// ---------------------------------------------------------------- ConvertSaveload types + references\n")
    for d in g.defs:
        out.append(emit_def(d))
        out.append("")
        out.append(emit_case_impl(d))
        out.append("")
    out.append("// ---------------------------------------------------------------- Component-only types\n")
    for c in g.comps:
        out.append(c.source)
        out.append("")
    out.append("fn run_marker<M: Marker<Identifier = u64>>(env: &Env<M>, cfg: &Cfg, rep: &mut Rep) {")
    for d in g.defs:
        targets = [i["ty"] for i in d.insts] if d.params else [d.name]
        for t in targets:
            out.append("    run_type::<M, %s>(&TypeInfo { idx: %d, name: %s, ty: %s }, env, cfg, rep);"
                       % (t, d.idx, rs_str(d.name), rs_str(t)))
    out.append("}\n")
    out.append("fn storage_checks(rep: &mut Rep) {")
    for d in g.defs:
        if d.storage:
            kind, attr, exp = d.storage
            out.append("    storage_check::<%s, %s>(&TypeInfo { idx: %d, name: %s, ty: %s }, %s, %s, %s, rep);"
                       % (d.name, exp.replace("{T}", d.name), d.idx, rs_str(d.name), rs_str(d.name), rs_str(kind),
                          rs_str("#[storage(%s)]" % attr if attr else "(no storage attribute)"),
                          rs_str(exp.replace("{T}", d.name))))
    for c in g.comps:
        for t, kind, attr, exp in c.checks:
            out.append("    storage_check::<%s, %s>(&TypeInfo { idx: %d, name: %s, ty: %s }, %s, %s, %s, rep);"
                       % (t, exp, c.idx, rs_str(c.name), rs_str(t), rs_str(kind),
                          rs_str("#[storage(%s)]" % attr if attr else "(no storage attribute)"), rs_str(exp)))
    out.append("}\n")
    out.append("fn main() {")
    out.append("    let cfg = parse_args();")
    out.append("    let mut rep = Rep::default();")
    out.append("    let env = build_env::<Simple>(\"SimpleMarker\", cfg.seed);")
    out.append("    run_marker(&env, &cfg, &mut rep);")
    if markers >= 2:
        out.append("    if cfg.markers >= 2 {")
        out.append("        let env = build_env::<NetMarker>(\"NetMarker\", cfg.seed);")
        out.append("        run_marker(&env, &cfg, &mut rep);")
        out.append("    }")
    out.append("    storage_checks(&mut rep);")
    out.append("    rep.finish();")
    out.append("}")
    return "\n".join(out) + "\n"


# ----------------------------------------------------------------------------- static evidence

def shape_of(d):
    def fs(fields):
        return ",".join("%s%s%s" % (f.base if f.kind != "nested" else "N", "!" if f.skip else "", "@" if f.has_fwd() else "")
                        for f in fields)
    if d.kind == "enum":
        body = "|".join("%s(%s)" % (v.kind[0], fs(v.fields)) for v in d.variants)
    else:
        body = fs(d.fields)
    nested = ";".join(sorted(set(f.base for f in d.all_fields() if f.kind == "nested")))
    return "%s<%d>{%s}[%s]" % (d.kind, len(d.params), body, "d%d" % d.depth)


def is_nontrivial(d):
    same = False
    for g in d.all_field_groups():
        bases = [f.base for f in g]
        if len(bases) != len(set(bases)):
            same = True
    multi = d.kind == "enum" and len(d.variants) >= 2
    ent = d.own_entity or any(i["entity"] for i in d.insts)
    return (same or multi) and ent


def static_counters(gens):
    c = {}

    def bump(k, n=1):
        c[k] = c.get(k, 0) + n
    for g in gens:
        for d in g.defs:
            bump("types_" + d.kind)
            bump("type_definitions")
            if d.params:
                bump("types_generic")
                bump("generic_instantiations", len(d.insts))
            if d.depth >= 2 or any(i["depth"] >= 2 for i in d.insts):
                bump("types_nested")
            bump("types_depth_%d" % max([d.depth] + [i["depth"] for i in d.insts]))
            if d.storage:
                bump("types_component_and_saveload")
            if getattr(d, "param_default", None):
                bump("types_generic_with_defaulted_parameter")
            if getattr(d, "via_macro", False):
                bump("types_defined_through_macro_rules_ty_fragments")
            fields = d.all_fields()
            bump("fields", len(fields))
            c["max_fields_in_one_struct"] = max(c.get("max_fields_in_one_struct", 0),
                                                max([len(x) for x in d.all_field_groups()] or [0]))
            bump("fields_entity", sum(1 for f in fields if f.kind == "entity"))
            bump("fields_probe", sum(1 for f in fields if f.kind == "probe"))
            bump("fields_nested_type", sum(1 for f in fields if f.kind == "nested"))
            bump("fields_generic_param", sum(1 for f in fields if f.kind == "param"))
            bump("fields_skip_convert", sum(1 for f in fields if f.skip))
            bump("fields_opaque_serde_skip", sum(1 for f in fields if f.kind == "opaque"))
            bump("fields_forwarded_attr", sum(1 for f in fields if f.has_fwd()))
            bump("fields_attr_rename", sum(1 for f in fields if f.rename))
            bump("fields_attr_alias", sum(1 for f in fields if f.alias))
            bump("fields_attr_default", sum(1 for f in fields if f.default or f.skip_none))
            if d.kind == "enum":
                bump("variants", len(d.variants))
                for v in d.variants:
                    bump("variants_" + v.kind)
                    if v.rename or v.alias:
                        bump("variants_forwarded_attr")
            if is_nontrivial(d):
                bump("types_nontrivial")
        for cd in g.comps:
            bump("component_only_definitions")
            if cd.generic:
                bump("component_generic_definitions")
        for attr in [d.storage[1] for d in g.defs if d.storage] + [ch[2] for cd in g.comps for ch in cd.checks]:
            if attr is None:
                bump("storage_attr_absent")
            elif attr.endswith(">"):
                bump("storage_attr_explicit_type_argument")
            else:
                bump("storage_attr_without_type_argument")
            if attr and "::" in attr.split("<")[0]:
                bump("storage_attr_path_qualified")
    return c


# ----------------------------------------------------------------------------- build and run

CARGO_TOML = """[package]
name = "dg"
version = "0.1.0"
edition = "2021"
publish = false
autobins = false

[workspace]

[dependencies]
specs = {{ path = "{repo}", features = ["serde", "derive"] }}
serde = {{ version = "1", features = ["derive"] }}
serde_json = "1"
ron = "0.8"

[profile.dev]
opt-level = 0
debug = 0
debug-assertions = true
overflow-checks = true
incremental = false
codegen-units = 16

[profile.dev.package."*"]
opt-level = 2

[profile.release]
opt-level = 1
debug = 0
incremental = false
codegen-units = 16

{bins}
"""


def log(*a):
    print(*a, file=sys.stderr, flush=True)


def clean_artifacts(tdir):
    """remove this tool's own binaries / rlibs of earlier runs (dependencies stay cached)"""
    for prof in ("debug", "release"):
        for sub in ("", "deps", ".fingerprint", "incremental"):
            p = os.path.join(tdir, prof, sub)
            if not os.path.isdir(p):
                continue
            for n in os.listdir(p):
                if n.startswith("dg_b") or n.startswith("dg-") or n.startswith("libdg"):
                    q = os.path.join(p, n)
                    if os.path.isdir(q):
                        shutil.rmtree(q, ignore_errors=True)
                    else:
                        try:
                            os.remove(q)
                        except OSError:
                            pass


def first_errors(stderr_text, binname, limit=14):
    """first compiler error that belongs to `binname` (human-readable cargo output)"""
    blocks = re.split(r"\n(?=(?:error|warning)(?:\[|:))", "\n" + stderr_text)
    for b in blocks:
        if b.lstrip().startswith("error") and ("src/bin/%s/" % binname) in b:
            return "\n".join(b.strip().splitlines()[:limit])
    for b in blocks:
        if b.lstrip().startswith("error") and "could not compile" not in b:
            return "\n".join(b.strip().splitlines()[:limit])
    return "\n".join(stderr_text.strip().splitlines()[-limit:])


def parse_args(argv):
    a = {"prop": "C18", "seed": 1, "types": 60, "values": 200, "batches": 1, "out": None, "repo": "/repo",
         "workdir": None, "keep": False, "formats": "json", "markers": 1, "profile": "dev", "jobs": 16,
         "emit_only": False, "flavour": "dbg", "replay_dir": os.path.join(VERIF, "replays"),
         "target_dir": os.path.join(VERIF, "target-derivegen")}
    i = 0
    while i < len(argv):
        k = argv[i]
        if k == "--keep":
            a["keep"] = True
            i += 1
            continue
        if k == "--emit-only":
            a["emit_only"] = True
            i += 1
            continue
        if not k.startswith("--") or i + 1 >= len(argv):
            raise SystemExit("bad argument " + k)
        key = k[2:].replace("-", "_")
        v = argv[i + 1]
        if key in ("seed", "types", "values", "batches", "markers", "jobs"):
            a[key] = int(v)
        elif key in a:
            a[key] = v
        else:
            # unknown --key value pairs from the driver (shard, nshards, cases, ops, ...) are ignored
            pass
        i += 2
    return a


def main(argv):
    t0 = time.time()
    a = parse_args(argv)
    seed, n_types, batches = a["seed"], a["types"], max(1, a["batches"])
    batches = min(batches, max(1, n_types))
    repo = os.path.abspath(a["repo"])
    prop = a["prop"]
    ron = "ron" in a["formats"]

    # ---- generate
    gens = []
    idx = 0
    for b in range(batches):
        n = n_types // batches + (1 if b < n_types % batches else 0)
        n_comps = max(4, n // 4)
        g = BatchGen(seed, b, idx, n, n_comps)
        idx = g.generate()
        gens.append(g)
    sources = [emit_batch(g, seed, a["markers"]) for g in gens]

    # ---- scratch package
    if a["workdir"]:
        work = os.path.abspath(a["workdir"])
        os.makedirs(work, exist_ok=True)
        made = False
    else:
        base = os.environ.get("TMPDIR") or "/var/tmp"
        os.makedirs(base, exist_ok=True)
        work = tempfile.mkdtemp(prefix="derivegen-", dir=base)
        made = True
    for forbidden in ("/repo", VERIF):
        if work == forbidden or work.startswith(forbidden + os.sep):
            raise SystemExit("refusing to use a work directory inside " + forbidden)
    rc = 2
    try:
        rc = build_and_run(a, gens, sources, work, repo, prop, seed, ron, t0)
    finally:
        if made and not a["keep"]:
            shutil.rmtree(work, ignore_errors=True)
        elif a["keep"]:
            log("[derivegen] kept work directory " + work)
    return rc


def build_and_run(a, gens, sources, work, repo, prop, seed, ron, t0):
    bins = []
    os.makedirs(os.path.join(work, "src"), exist_ok=True)
    shutil.copy(os.path.join(HERE, "support.rs"), os.path.join(work, "src", "support.rs"))
    for g, src in zip(gens, sources):
        name = "dg_b%d" % g.batch
        d = os.path.join(work, "src", "bin", name)
        os.makedirs(d, exist_ok=True)
        # support.rs is referenced as ../../support.rs from src/bin/<name>/main.rs
        open(os.path.join(d, "main.rs"), "w").write(src)
        bins.append(name)
    bins_toml = "\n".join('[[bin]]\nname = "%s"\npath = "src/bin/%s/main.rs"\n' % (b, b) for b in bins)
    open(os.path.join(work, "Cargo.toml"), "w").write(CARGO_TOML.format(repo=repo, bins=bins_toml))
    lock = os.path.join(repo, "Cargo.lock")
    if not os.path.exists(lock):
        lock = os.path.join(VERIF, "harness", "Cargo.lock.seed")
    shutil.copy(lock, os.path.join(work, "Cargo.lock"))
    if a["emit_only"]:
        log("[derivegen] emitted %d batch(es) into %s" % (len(bins), work))
        return 0

    tdir = a["target_dir"]
    os.makedirs(tdir, exist_ok=True)
    result = {
        "engine": "derivegen", "prop": prop, "flavour": a["flavour"], "seed": seed, "shard": 0, "nshards": 1,
        "cases_run": 0, "ops": {}, "counters": static_counters(gens), "distinct": [], "samples": [],
        "violations": [], "foreign": [], "inconclusive": [], "notes": [],
    }
    lockf = open(os.path.join(tdir, ".derivegen.lock"), "w")
    fcntl.flock(lockf, fcntl.LOCK_EX)
    try:
        clean_artifacts(tdir)
        env = dict(os.environ)
        env["CARGO_NET_OFFLINE"] = "true"
        env["CARGO_TARGET_DIR"] = tdir
        env.pop("RUSTFLAGS", None)
        env["CARGO_TERM_COLOR"] = "never"
        cmd = ["cargo", "build", "--offline", "--keep-going", "--bins", "-j", str(a["jobs"]),
               "--manifest-path", os.path.join(work, "Cargo.toml")]
        profdir = "debug"
        if a["profile"] == "release":
            cmd.append("--release")
            profdir = "release"
        tb = time.time()
        p = subprocess.run(cmd, env=env, stdout=subprocess.PIPE, stderr=subprocess.PIPE, text=True, cwd=work)
        build_s = time.time() - tb
        log("[derivegen] build of %d batch(es) rc=%d in %.1fs" % (len(bins), p.returncode, build_s))
        result["notes"].append("build %.1fs (%s, %d bins, repo %s)" % (build_s, a["profile"], len(bins), repo))

        # copy the binaries out so the shared target dir can be released and cleaned
        rundir = os.path.join(work, "bin")
        os.makedirs(rundir, exist_ok=True)
        built = {}
        for b in bins:
            src = os.path.join(tdir, profdir, b)
            if os.path.exists(src):
                dst = os.path.join(rundir, b)
                shutil.copy2(src, dst)
                built[b] = dst
        clean_artifacts(tdir)
    finally:
        fcntl.flock(lockf, fcntl.LOCK_UN)
        lockf.close()

    replay_dir = a["replay_dir"]
    base_cmd = [sys.executable, os.path.abspath(__file__), "--prop", prop, "--seed", str(seed), "--types", str(a["types"]),
                "--values", str(a["values"]), "--batches", str(a["batches"]), "--formats", a["formats"],
                "--markers", str(a["markers"]), "--profile", a["profile"], "--repo", repo,
                "--out", "/dev/null"]

    used_replays = set()

    def add_violation(case, msg, signature, doc, tag):
        if len(result["violations"]) >= 8:
            return
        os.makedirs(replay_dir, exist_ok=True)
        rp = os.path.join(replay_dir, "%s-derivegen-s%d-%s.json" % (prop, seed, tag))
        k = 1
        while rp in used_replays:
            k += 1
            rp = os.path.join(replay_dir, "%s-derivegen-s%d-%s-%d.json" % (prop, seed, tag, k))
        used_replays.add(rp)
        full = {"property": prop, "engine": "derivegen", "flavour": a["flavour"], "seed": seed, "repo": repo,
                "signature": signature, "message": msg, "command": base_cmd}
        full.update(doc)
        json.dump(full, open(rp, "w"), indent=1)
        result["violations"].append({"prop": prop, "case": case, "step": 0, "msg": msg, "signature": signature,
                                     "replay": rp})

    failed = [b for b in bins if b not in built]
    result["counters"]["compile_failed_batches"] = 0
    by_idx = {}
    for g in gens:
        for d in g.defs:
            by_idx[d.idx] = d
        for c in g.comps:
            by_idx[c.idx] = c
    for b in failed:
        g = gens[int(b[4:])]
        err = first_errors(p.stderr, b)
        m = re.search(r"src/bin/%s/main\.rs:(\d+)" % b, err)
        if not m:
            # no diagnostic points into the generated program: cargo, a dependency or the tree under test
            # itself (specs / specs-derive) failed to build -- nothing about the macros' behaviour was observed
            result["inconclusive"].append("batch %d not built, and no compiler error points into the generated program "
                                          "(tree under test or tooling does not build): %s"
                                          % (g.batch, " | ".join(l.strip() for l in err.splitlines()[:6])))
            continue
        result["counters"]["compile_failed_batches"] += 1
        # name the generated type the error points into
        line = int(m.group(1))
        text = sources[g.batch].splitlines()
        culprit = None
        for k in range(line - 1, min(line + 6, len(text))):
            mm = re.match(r"pub (?:struct|enum) (\w+)", text[k])
            if mm and (k == line - 1 or text[line - 1].startswith("#[")):
                culprit = mm.group(1)
                break
        if culprit is None:
            for k in range(min(line, len(text)) - 1, -1, -1):
                mm = re.match(r"pub (?:struct|enum) (\w+)", text[k])
                if mm:
                    culprit = mm.group(1)
                    break
                if text[k].startswith("impl<") or text[k].startswith("fn "):
                    mm = re.search(r"for (\w+)", text[k])
                    culprit = mm.group(1) if mm else None
                    break
        src_txt = ""
        where = ""
        if culprit:
            for x in list(g.defs) + list(g.comps):
                if x.name == culprit:
                    src_txt = x.source
            where = " (at generated type %s)" % culprit
        msg = "batch %d of generated derive programs does not compile against %s%s: %s" % (
            g.batch, repo, where, " | ".join(l.strip() for l in err.splitlines()[:8]))
        add_violation(g.batch, msg, "%s:generated program no longer compiles" % prop,
                      {"batch": g.batch, "compiler_error": err, "type_definition": src_txt,
                       "value": None, "expected": "the program compiles (it does on the pinned tree)",
                       "actual": "compile error"}, "b%d-compile" % g.batch)

    # ---- run
    def run(b):
        cmd = [built[b], "--seed", str(seed), "--values", str(a["values"]), "--formats", a["formats"],
               "--markers", str(a["markers"]), "--batch", b[4:]]
        try:
            q = subprocess.run(cmd, stdout=subprocess.PIPE, stderr=subprocess.PIPE, text=True, timeout=3000)
            return b, q.returncode, q.stdout, q.stderr
        except subprocess.TimeoutExpired:
            return b, "timeout", "", ""

    tr = time.time()
    with ThreadPoolExecutor(max_workers=max(1, min(a["jobs"], len(built) or 1))) as ex:
        outs = list(ex.map(run, sorted(built)))
    run_s = time.time() - tr
    result["notes"].append("run %.1fs" % run_s)
    sample_docs = []
    for b, rcode, so, se in outs:
        g = gens[int(b[4:])]
        if rcode == "timeout":
            result["inconclusive"].append("batch %s: watchdog fired" % b)
            continue
        doc = None
        try:
            doc = json.loads(so.strip().splitlines()[-1])
        except Exception:
            pass
        if rcode != 0 or doc is None:
            tail = " | ".join(se.strip().splitlines()[-6:])
            add_violation(g.batch, "generated program of batch %d died (rc=%s) outside a guarded conversion: %s" % (g.batch, rcode, tail),
                          "%s:generated program crashed" % prop,
                          {"batch": g.batch, "stderr_tail": se[-4000:], "type_definition": "", "value": None,
                           "expected": "program runs to completion", "actual": "rc=%s" % rcode}, "b%d-crash" % g.batch)
            continue
        result["cases_run"] += doc["cases_run"]
        for k, v in doc["counters"].items():
            result["counters"][k] = result["counters"].get(k, 0) + v
        for v in doc["violations"]:
            d = by_idx.get(v["type_idx"])
            src = d.source if d else ""
            deps = []
            if d is not None and hasattr(d, "all_fields"):
                names = set(re.findall(r"\b(?:G?[STE]\d+)\b", d.source + " " + v.get("type", ""))) - {d.name}
                seen = set()
                todo = list(names)
                while todo:
                    nme = todo.pop()
                    if nme in seen:
                        continue
                    seen.add(nme)
                    for x in g.defs:
                        if x.name == nme:
                            deps.append(x.source)
                            todo += list(set(re.findall(r"\b(?:G?[STE]\d+)\b", x.source)) - seen)
            msg = "%s (type #%d `%s`, value #%d, marker %s): %s" % (
                v["signature"], v["type_idx"], v["type"], v["value_idx"], v["marker"], v["msg"])
            add_violation(v["type_idx"], msg, v["signature"],
                          {"batch": g.batch, "type_idx": v["type_idx"], "type": v["type"], "type_definition": src,
                           "referenced_type_definitions": deps,
                           "value_idx": v["value_idx"], "marker": v["marker"], "value": v["value"],
                           "expected": v["expected"], "actual": v["actual"]},
                          "t%d" % v["type_idx"])
        for s in doc["samples"]:
            d = by_idx.get(s["type_idx"])
            sample_docs.append({"type_definition": d.source if d else "", "type": s["type"], "value": s["value"],
                                "expected_after_round_trip": s["expected_after_round_trip"]})
    # prefer samples of non-trivial types
    result["samples"] = sample_docs[:3]
    distinct = set()
    ran = set(int(b[4:]) for b, rcode, so, se in outs if rcode == 0)
    for g in gens:
        if g.batch not in ran:
            continue
        for d in g.defs:
            if is_nontrivial(d):
                distinct.add(hashlib.sha256(shape_of(d).encode()).hexdigest()[:16])
    result["distinct"] = sorted(distinct)
    result["ops"] = {"convert_into": result["counters"].get("roundtrips_json", 0),
                     "convert_from": result["counters"].get("roundtrips_json", 0) + result["counters"].get("roundtrips_ron", 0),
                     "storage_check": sum(v for k, v in result["counters"].items() if k.startswith("storage_checked_"))}
    result["notes"].append("total %.1fs" % (time.time() - t0))
    if a["out"] and a["out"] != "/dev/null":
        os.makedirs(os.path.dirname(os.path.abspath(a["out"])), exist_ok=True)
        json.dump(result, open(a["out"], "w"))
    log("[derivegen] seed=%d types=%d cases=%d distinct=%d violations=%d inconclusive=%d build=%.1fs run=%.1fs total=%.1fs" % (
        seed, a["types"], result["cases_run"], len(distinct), len(result["violations"]), len(result["inconclusive"]),
        build_s, run_s, time.time() - t0))
    for v in result["violations"][:4]:
        log("  violation: " + v["msg"][:600])
    if result["violations"]:
        return 1
    if result["cases_run"] == 0:
        return 2
    return 0


if __name__ == "__main__":
    sys.exit(main(sys.argv[1:]))
